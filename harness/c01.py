"""C01 Lexing is lossless, ordered and total (kernels: subdivision, matcher loop, position arithmetic, LXR errors)."""
from __future__ import annotations

import z3

from lib.runner import Outcome, Unit
from symlite.core import Stats
from symlite.values import (AbsStr, NullLogger, RopeStr, SymInt, choose, fresh_bool, fresh_int, hash_zero, lift, sym_len)

import sqlfluff.core.parser.lexer as lx
from sqlfluff.core.parser.lexer import (BlockTracker, LexedElement, PyLexer, RegexLexer, StringLexer, _iter_segments)
from sqlfluff.core.parser.segments import CodeSegment, UnlexableSegment, WhitespaceSegment
from sqlfluff.core.templaters.base import RawFileSlice, TemplatedFile, TemplatedFileSlice



def _known_f18(entry):
    """Replay through the public API: a token spanning a loop's backward jump gets an inverted source slice."""
    from sqlfluff.core import FluffConfig, Linter
    lin = Linter(config=FluffConfig(overrides={"dialect": "ansi", "templater": "jinja"}))
    parsed = lin.parse_string(entry["replay"]["source"])
    bad = [(s.raw, s.pos_marker.source_slice) for v in parsed.parsed_variants for s in v.tree.raw_segments
           if not s.is_meta and s.pos_marker.source_slice.start > s.pos_marker.source_slice.stop]
    return f"token {bad[0][0]!r} has source slice {bad[0][1]}" if bad else None


def _known_collide(entry):
    from harness import tmpl_python
    return tmpl_python.known_collide(entry)


KNOWN = {"F18": _known_f18, "PY_COLLIDE": _known_collide, "PY_COLLIDE_PARTIAL": _known_collide}

KIND = {"L": "literal", "T": "templated", "Z": "templated", "C": "comment", "S": "block_start", "E": "block_end",
        "M": "block_mid", "X": "escaped"}

# (name, source regions in source order, visit order = templated order)
SHAPES = {
    "L": ("L", [0]),
    "LTL": ("LTL", [0, 1, 2]),
    "TL": ("TL", [0, 1]),
    "LT": ("LT", [0, 1]),
    "LTLTL": ("LTLTL", [0, 1, 2, 3, 4]),
    "TLTL": ("TLTL", [0, 1, 2, 3]),
    "LCL": ("LCL", [0, 1, 2]),
    "LCLCL": ("LCLCL", [0, 1, 2, 3, 4]),
    "LSLEL": ("LSLEL", [0, 1, 2, 3, 4]),
    "LZL": ("LZL", [0, 1, 2]),
    "LXL": ("LXL", [0, 1, 2]),
    "loop2": ("LSLEL", [0, 1, 2, 3, 2, 3, 4]),              # {% for %} body rendered twice
    "ifelse_first": ("LSLMLEL", [0, 1, 2, 3, 5, 6]),        # else-branch skipped (forward jump)
    "ifelse_second": ("LSLMLEL", [0, 1, 3, 4, 5, 6]),       # if-branch skipped
    "loop_if": ("SSLMLEEL", [0, 1, 2, 3, 5, 6, 1, 3, 4, 5, 6, 7]),
    "LTTL": ("LTTL", [0, 1, 2, 3]),
    "LTCTL": ("LTCTL", [0, 1, 2, 3, 4]),
}


def _bind():
    lx.lexer_logger = NullLogger()
    lx.len = sym_len
    BlockTracker._stack = []
    BlockTracker._map = {}
    for nm in ("str", "isinstance"):
        if nm in vars(lx):
            delattr(lx, nm)


_code_m = RegexLexer("word", r"x", CodeSegment)
_ws_m = RegexLexer("whitespace", r"y", WhitespaceSegment)
_unlex_m = RegexLexer("<unlexable>", r"z", UnlexableSegment)


def build_file(c, shape):
    regions, visits = SHAPES[shape]
    # source layout
    starts, lens, pos = [], [], SymInt(z3.IntVal(0))
    for i, k in enumerate(regions):
        ln = fresh_int(c, f"src{i}", 1)
        starts.append(pos)
        lens.append(ln)
        pos = pos + ln
    n = pos
    raw = [RawFileSlice(AbsStr(lens[i]), KIND[k], starts[i]) for i, k in enumerate(regions)]
    sliced, tp = [], SymInt(z3.IntVal(0))
    tlens = {}
    for j, r in enumerate(visits):
        k = regions[r]
        if k in ("L", "X") and k == "L":
            tl = lens[r]
        elif k in ("T", "X"):
            tl = fresh_int(c, f"tpl{j}", 1)
        else:
            tl = 0
        sliced.append(TemplatedFileSlice(KIND[k], slice(starts[r], starts[r] + lens[r]), slice(tp, tp + tl)))
        tp = tp + tl
    tf = TemplatedFile.__new__(TemplatedFile)
    tf.source_str = AbsStr(n)
    tf.templated_str = AbsStr(tp)
    tf.fname = "f"
    tf.sliced_file = sliced
    tf.raw_sliced = raw
    tf._source_newlines = []
    tf._templated_newlines = []
    return tf, n, tp


_TIER = ["thorough"]


def make_iter(shape, NE, with_unlexable=False):
    regions, visits = SHAPES[shape]
    untemplated = all(k == "L" for k in regions)

    def factory(excluded=frozenset()):
        _bind()

        def harness(c):
            BlockTracker._stack = []
            BlockTracker._map = {}
            tf, n, T = build_file(c, shape)
            lexed = []
            total = SymInt(z3.IntVal(0))
            n_unlex = 0
            for i in range(NE):
                ln = fresh_int(c, f"el{i}", 1)
                if bool(fresh_bool(c, f"ws{i}")):
                    m = _ws_m
                elif with_unlexable and bool(fresh_bool(c, f"unlex{i}")):
                    m = _unlex_m
                    n_unlex += 1
                else:
                    m = _code_m
                lexed.append(LexedElement(AbsStr(ln), m))
                total = total + ln
            c.assume(lift(total) == lift(T))
            if "F18" in excluded:
                # known finding F18: an unsplittable token spanning a loop's backward jump gets an inverted source
                # slice; exclude exactly that pattern so that any other violation still surfaces
                pos = z3.IntVal(0)
                for le in lexed:
                    stop = pos + lift(le.raw.symlen())
                    if le.matcher is not _ws_m:
                        for j in range(len(visits) - 1):
                            if visits[j + 1] < visits[j]:
                                J = lift(tf.sliced_file[j + 1].templated_slice.start)
                                c.assume(z3.Not(z3.And(pos < J, J < stop)))
                    pos = stop
            elems = PyLexer.map_template_slices(lexed, tf)  # REAL: running templated offsets
            with hash_zero():
                segs = list(_iter_segments(elems, tf, add_indents=True))  # REAL
            if bool(fresh_bool(c, "through_linter_filter")):
                # the token stream as the PARSER receives it: Linter._lex_templated_file filters template indents when
                # template_blocks_indent is off (or the indents do not balance); tokens and placeholders must survive
                import sqlfluff.core.linter.linter as _lm
                # quick tier: only the setting under which the filter acts; thorough: all three
                tbi = choose(c, "template_blocks_indent", [True, False, "force"]) if _TIER[0] != "quick" else False

                class _Cfg:
                    def get(self, key, section="core", default=None):
                        return tbi if key == "template_blocks_indent" else default

                class _Lexer:
                    def __init__(self, config=None):
                        pass

                    def lex(self, templated_file):
                        return tuple(segs), []
                real_lexer, real_log = _lm.Lexer, _lm.linter_logger
                _lm.Lexer, _lm.linter_logger = _Lexer, NullLogger()
                try:
                    out, _ = _lm.Linter._lex_templated_file(tf, _Cfg())   # REAL
                finally:
                    _lm.Lexer, _lm.linter_logger = real_lexer, real_log
                segs = list(out)
                if tbi is False:
                    c.witness("template_indents_filtered")
            ok = z3.BoolVal(True)
            tp = z3.IntVal(0)
            sp = z3.IntVal(0)
            covered = []
            balance = 0
            for s in segs:
                pm = s.pos_marker
                ts, ss = pm.templated_slice, pm.source_slice
                ok = z3.And(ok, lift(ss.start) >= 0, lift(ss.stop) <= lift(n), lift(ss.start) <= lift(ss.stop),
                            lift(ts.start) >= 0, lift(ts.stop) <= lift(T), lift(ts.start) <= lift(ts.stop))
                if s.is_type("template_loop"):
                    sp = z3.IntVal(0)  # a loop legitimately jumps back in the source
                    c.witness("loop_marker")
                if not s.is_meta:
                    ok = z3.And(ok, lift(ss.start) >= sp)
                    sp = lift(ss.start)
                    ok = z3.And(ok, lift(ts.start) == tp, lift(ts.stop) - lift(ts.start) == lift(sym_len(s.raw)),
                                lift(sym_len(s.raw)) >= 1)
                    tp = lift(ts.stop)
                    if untemplated:
                        ok = z3.And(ok, lift(ss.start) == lift(ts.start), lift(ss.stop) == lift(ts.stop))
                else:
                    balance += getattr(s, "indent_val", 0)
                if (not s.is_meta) or s.is_type("placeholder"):
                    covered.append(ss)
                if s.is_type("placeholder") and getattr(s, "block_type", "") == "skipped_source":
                    c.witness("skipped_source")
            ok = z3.And(ok, tp == lift(T), z3.BoolVal(balance == 0))
            # coverage: a universally quantified source offset (fresh constant) lies in some covering slice
            x = c.declare("probe_x", z3.Int("probe_x"))
            incov = z3.Or(*[z3.And(lift(ss.start) <= x, x < lift(ss.stop)) for ss in covered]) if covered else z3.BoolVal(False)
            ok = z3.And(ok, z3.Implies(z3.And(x >= 0, x < lift(n)), incov))
            # LXR errors: one per unlexable token, at that token's position
            vs = PyLexer.violations_from_segments(tuple(segs))  # REAL
            unl = [s for s in segs if s.is_type("unlexable")]
            ok = z3.And(ok, z3.BoolVal(len(vs) == len(unl) and len(unl) >= n_unlex))
            for v, s in zip(vs, unl):
                ok = z3.And(ok, lift(v.line_no) == 1, lift(v.line_pos) == lift(s.pos_marker.source_slice.start) + 1)
            if len([s for s in segs if not s.is_meta]) > NE:
                c.witness("split_token")
            if vs:
                c.witness("lxr")
            return ok
        return harness
    return factory


def replay_iter(shape, NE, with_unlexable=False):
    """Concrete replay on the real _iter_segments with real strings, independent oracle."""
    regions, visits = SHAPES[shape]

    def rp(cex):
        for nm in ("len",):
            if nm in vars(lx):
                delattr(lx, nm)
        BlockTracker._stack = []
        BlockTracker._map = {}
        lens = [int(cex.get(f"src{i}", 1)) for i in range(len(regions))]
        starts = [sum(lens[:i]) for i in range(len(regions))]
        n = sum(lens)
        src = "".join("abcdefghijklmnopqrstuvwxyz"[i % 26] * lens[i] for i in range(len(regions)))
        raw = [RawFileSlice(src[starts[i]:starts[i] + lens[i]], KIND[k], starts[i]) for i, k in enumerate(regions)]
        sliced, tp, out = [], 0, ""
        for j, r in enumerate(visits):
            k = regions[r]
            tl = lens[r] if k == "L" else int(cex.get(f"tpl{j}", 1)) if k in ("T", "X") else 0
            sliced.append(TemplatedFileSlice(KIND[k], slice(starts[r], starts[r] + lens[r]), slice(tp, tp + tl)))
            tp += tl
        T = tp
        els, pos = [], 0
        for i in range(NE):
            ln = int(cex.get(f"el{i}", 1))
            m = _ws_m if cex.get(f"ws{i}") else (_unlex_m if cex.get(f"unlex{i}") else _code_m)
            els.append((ln, m))
        templ = "".join((" " if m is _ws_m else "?" if m is _unlex_m else "w") * ln for ln, m in els)
        if len(templ) != T:
            return None
        tf = TemplatedFile(source_str=src, fname="f", templated_str=templ, sliced_file=sliced, raw_sliced=raw)
        lexed, p = [], 0
        for ln, m in els:
            lexed.append(LexedElement(templ[p:p + ln], m))
            p += ln
        elems = PyLexer.map_template_slices(lexed, tf)
        segs = list(_iter_segments(elems, tf, add_indents=True))
        if cex.get("through_linter_filter"):
            import sqlfluff.core.linter.linter as _lm
            from sqlfluff.core import FluffConfig
            tbi = [True, False, "force"][int(cex["template_blocks_indent"])] if "template_blocks_indent" in cex else False
            cfg = FluffConfig(overrides={"dialect": "ansi"}, configs={"indentation": {"template_blocks_indent": tbi}})
            pre = segs

            class _Lexer:
                def __init__(self, config=None):
                    pass

                def lex(self, templated_file):
                    return tuple(pre), []
            real_lexer = _lm.Lexer
            _lm.Lexer = _Lexer
            try:
                segs = list(_lm.Linter._lex_templated_file(tf, cfg)[0])   # REAL filter with a REAL config
            finally:
                _lm.Lexer = real_lexer
        problems = []
        toks = [s for s in segs if not s.is_meta]
        if "".join(s.raw for s in toks) != templ:
            problems.append(f"tokens concatenate to {''.join(s.raw for s in toks)!r} != rendered {templ!r}")
        tp, sp = 0, 0
        cov = set()
        for s in segs:
            ts, ss = s.pos_marker.templated_slice, s.pos_marker.source_slice
            if not (0 <= ss.start <= ss.stop <= n):
                problems.append(f"source slice out of bounds {ss} for {s.raw!r}")
            if s.is_type("template_loop"):
                sp = 0
            if not s.is_meta:
                if ts.start != tp or ts.stop - ts.start != len(s.raw) or len(s.raw) == 0:
                    problems.append(f"templated slice {ts} of token {s.raw!r} not contiguous/size-consistent (expected start {tp})")
                tp = ts.stop
                if ss.start < sp:
                    problems.append(f"source start decreases at token {s.raw!r}: {ss}")
                sp = ss.start
            if (not s.is_meta) or s.is_type("placeholder"):
                cov |= set(range(ss.start, ss.stop))
        if cov != set(range(n)):
            problems.append(f"source offsets not covered: {sorted(set(range(n)) - cov)}")
        if sum(getattr(s, "indent_val", 0) for s in segs if s.is_meta) != 0:
            problems.append("template indent balance != 0")
        vs = PyLexer.violations_from_segments(tuple(segs))
        if len(vs) != len([s for s in segs if s.is_type("unlexable")]):
            problems.append("LXR error count != unlexable token count")
        return (f"shape={shape} source={src!r} rendered={templ!r} sliced={[(s.slice_type, s.source_slice, s.templated_slice) for s in sliced]}: "
                + "; ".join(problems)) if problems else None
    return rp


# ---------------------------------------------------------------- subdivision / trimming is lossless

class _StubSearch:
    """A subdivider / trimmer whose search() result is an arbitrary contract-respecting span (or None)."""

    def __init__(self, c, tag, max_hits, maximal_runs=False):
        self.c, self.tag, self.max_hits, self.hits = c, tag, max_hits, 0
        self.name = tag
        self.maximal_runs = maximal_runs  # pattern of the form X+ : the text right after a hit never starts a hit
        self.after_last = None

    def search(self, s):
        n = sym_len(s)
        if self.hits >= self.max_hits:
            return None
        k = self.hits
        if not bool(fresh_bool(self.c, f"{self.tag}_hit{k}")):
            return None
        self.hits += 1
        a = fresh_int(self.c, f"{self.tag}_a{k}", 0)
        b = fresh_int(self.c, f"{self.tag}_b{k}")
        self.c.assume(z3.And(a.e < b.e, b.e <= lift(n)))
        if self.maximal_runs and self.after_last is not None and isinstance(s, RopeStr) and s._key() == self.after_last:
            self.c.assume(a.e > 0)
        if isinstance(s, RopeStr):
            self.after_last = s[slice(b, None)]._key()
        return (a, b)


def make_subdivide(max_div, max_trim):
    def factory(excluded=frozenset()):
        _bind()

        def harness(c):
            fwd = RopeStr.base(c, "fwd")
            k = fresh_int(c, "matched_len", 1)
            c.assume(k.e <= fwd.symlen().e)
            m = StringLexer("m", "zz", CodeSegment,
                            subdivider=_StubSearch(c, "div", max_div) if max_div else None,
                            trim_post_subdivide=_StubSearch(c, "trim", max_trim, maximal_runs=True) if max_trim else None)
            m._match = lambda s: LexedElement(s[slice(0, k)], m)
            res = m.match(fwd)  # REAL match -> _subdivide -> _trim_match
            cat = RopeStr([])
            ok = z3.BoolVal(True)
            for e in res.elements:
                cat = cat + e.raw
                ok = z3.And(ok, lift(sym_len(e.raw)) >= 1)
            ok = z3.And(ok, cat.same_as(fwd[slice(0, k)]).e, RopeStr.coerce(res.forward_string).same_as(fwd[slice(k, None)]).e)
            if len(res.elements) >= 3:
                c.witness("three_elements")
            return ok
        return harness
    return factory


def replay_subdivide(max_div, max_trim):
    def rp(cex):
        for nm in ("len",):
            if nm in vars(lx):
                delattr(lx, nm)
        n = int(cex.get("len_fwd", 1))
        k = int(cex.get("matched_len", 1))
        fwd = "".join("abcdefghijklmnopqrstuvwxyz"[i % 26] for i in range(n))

        class S:
            def __init__(self, tag, mx):
                self.tag, self.mx, self.hits, self.name = tag, mx, 0, tag

            def search(self, s):
                kk = self.hits
                if kk >= self.mx or not cex.get(f"{self.tag}_hit{kk}"):
                    return None
                self.hits += 1
                return (int(cex[f"{self.tag}_a{kk}"]), int(cex[f"{self.tag}_b{kk}"]))
        m = StringLexer("m", "zz", CodeSegment, subdivider=S("div", max_div) if max_div else None,
                        trim_post_subdivide=S("trim", max_trim) if max_trim else None)
        m._match = lambda s: LexedElement(s[:k], m)
        res = m.match(fwd)
        got = "".join(e.raw for e in res.elements)
        if got != fwd[:k] or res.forward_string != fwd[k:] or any(not e.raw for e in res.elements):
            return f"match({fwd!r}) with matched prefix {fwd[:k]!r}: elements {[e.raw for e in res.elements]} forward {res.forward_string!r}"
        return None
    return rp


# ---------------------------------------------------------------- matcher loop totality (lex / lex_match)

class _StubMatcher:
    """A matcher returning an arbitrary prefix (possibly nothing); kind fixes what it may match on."""

    def __init__(self, c, name, cls_of, budget):
        self.c, self.name, self.cls_of, self.budget = c, name, cls_of, budget
        self.calls = 0

    def match(self, s):
        from sqlfluff.core.parser.lexer import LexMatch
        self.calls += 1
        pos = s.pieces[0][1] if s.pieces else None  # absolute offset of the forward string in the input
        can = self.cls_of(pos)
        if can is False:
            return LexMatch(s, [])
        must = can is True
        if not must and not bool(fresh_bool(self.c, f"{self.name}_m{self.calls}")):
            return LexMatch(s, [])
        if self.budget[0] <= 0:
            from symlite.core import Abort
            raise Abort()  # more tokens than the bound: outside the claim
        self.budget[0] -= 1
        k = fresh_int(self.c, f"{self.name}_k{self.calls}", 1)
        self.c.assume(k.e <= s.symlen().e)
        return LexMatch(s[slice(k, None)], [LexedElement(s[slice(0, k)], self)])


def _sym_str(x):
    if isinstance(x, TemplatedFile):
        return x.templated_str
    return x if isinstance(x, RopeStr) else str(x)


def make_loop(max_tokens):
    """Real PyLexer.lex main loop + lex_match. Character classes of the input are an uninterpreted function of the
    offset: WS (whitespace matcher must match), NL (newline matcher must match), OTHER (the last-resort matcher
    must match) -- exactly the contract established per dialect by the z3 regex query below."""
    def factory(excluded=frozenset()):
        _bind()

        def harness(c):
            text = RopeStr.base(c, "input")
            cls = z3.Function("cls", z3.IntSort(), z3.IntSort())  # 0 WS, 1 NL, 2 OTHER
            budget = [max_tokens]

            def is_cls(v):
                def f(pos):
                    if pos is None:
                        return False
                    c.assume(z3.And(cls(pos) >= 0, cls(pos) <= 2))
                    return bool(SymInt(cls(pos)) == v)
                return f
            ws = _StubMatcher(c, "whitespace", is_cls(0), budget)
            nl = _StubMatcher(c, "newline", is_cls(1), budget)
            other = _StubMatcher(c, "code", lambda pos: None, budget)  # may or may not match anything anywhere
            last = _StubMatcher(c, "<unlexable>", is_cls(2), budget)
            lexer = PyLexer.__new__(PyLexer)
            lexer.lexer_matchers = [other, ws, nl]
            lexer.last_resort_lexer = last
            captured = {}
            lexer.map_template_slices = lambda els, tmpl: captured.setdefault("els", els) or []
            lexer.elements_to_segments = lambda buf, tmpl: ()
            lexer.violations_from_segments = lambda segs: []
            tf = TemplatedFile.__new__(TemplatedFile)
            tf.templated_str = text
            tf.source_str = text
            lx.str = _sym_str
            lx.isinstance = lambda o, t: isinstance(o, str if t is _sym_str else t)
            lexer.lex(tf)  # REAL loop; SQLLexError escaping = violation (undeclared exception)
            cat = RopeStr([])
            ok = z3.BoolVal(True)
            for e in captured["els"]:
                cat = cat + e.raw
                ok = z3.And(ok, lift(sym_len(e.raw)) >= 1)
            if any(e.matcher is last for e in captured["els"]):
                c.witness("last_resort_used")
            return z3.And(ok, cat.same_as(text).e)
        return harness
    return factory


# ---------------------------------------------------------------- E3: last-resort contract for every dialect

def run_regex_totality(excluded):
    """For every bundled dialect: every non-empty string has a non-empty prefix matched by the dialect's whitespace
    matcher, its newline matcher, or the last-resort unlexable matcher (patterns read from the live objects)."""
    import time
    from models.regex2z3 import Unsupported, any_string, to_re
    from sqlfluff.core import FluffConfig
    from sqlfluff.core.dialects import dialect_readout
    st = Stats()
    t0 = time.time()
    samples, bad = [], None
    seen = {}
    for d in dialect_readout():
        cfg = FluffConfig(overrides={"dialect": d.label})
        lexer = PyLexer(config=cfg)
        ms = {m.name: m for m in lexer.lexer_matchers}
        pats = []
        for nm in ("whitespace", "newline"):
            if nm in ms and isinstance(ms[nm], RegexLexer):
                pats.append(ms[nm].template)
        pats.append(lexer.last_resort_lexer.template)
        key = tuple(pats)
        st.paths += 1
        if key in seen:
            continue
        try:
            res = [to_re(p, dotall=True)[0] for p in pats]
        except Unsupported as e:
            return Outcome("", "ERROR", st, error=f"{d.label}: {e}")
        s = z3.String("s")
        sol = z3.Solver()
        sol.set("timeout", 60000)
        sol.add(z3.Length(s) >= 1)
        # no matcher matches a NON-EMPTY prefix of s
        for r in res:
            nonempty = z3.Intersect(r, z3.Plus(z3.Range(z3.Unit(z3.CharVal(0)), z3.Unit(z3.CharVal(0x2FFFF)))))
            sol.add(z3.Not(z3.InRe(s, z3.Concat(nonempty, any_string()))))
        t = time.time()
        r = sol.check()
        st.queries += 1
        st.solver_s += time.time() - t
        st.nontrivial += 1
        seen[key] = str(r)
        samples.append({"dialect": d.label, "patterns": pats, "verdict": str(r)})
        if r == z3.sat:
            bad = {"dialect": d.label, "string": sol.model()[s].as_string(), "patterns": pats}
            break
        if r != z3.unsat:
            st.unknown += 1
    if bad:
        return Outcome("", "CEX", st, cex=bad, cex_kind="regex totality", samples=samples[-2:])
    return Outcome("", "PROVED" if not st.unknown else "INCOMPLETE", st, samples=samples[:3],
                   extra={"distinct_pattern_sets": len(seen)})


def replay_regex_totality(cex):
    from sqlfluff.core import FluffConfig
    s = cex["string"].encode().decode("unicode_escape") if "\\u" in cex["string"] else cex["string"]
    lexer = PyLexer(config=FluffConfig(overrides={"dialect": cex["dialect"]}))
    try:
        segs, errs = lexer.lex(s)
    except Exception as e:
        return f"dialect {cex['dialect']}: lexing {s!r} raises {type(e).__name__}: {e}"
    if "".join(x.raw for x in segs) != s:
        return f"dialect {cex['dialect']}: lexing {s!r} loses text: {[x.raw for x in segs]}"
    return None


FUNCS_ITER = ["sqlfluff.core.parser.lexer.PyLexer.map_template_slices", "sqlfluff.core.parser.lexer._iter_segments",
              "sqlfluff.core.parser.lexer._handle_zero_length_slice", "sqlfluff.core.parser.lexer.TemplateElement.to_segment",
              "sqlfluff.core.parser.lexer.BlockTracker", "sqlfluff.core.parser.lexer.PyLexer.violations_from_segments",
              "sqlfluff.core.parser.markers.PositionMarker", "sqlfluff.core.parser.segments.meta.TemplateSegment.from_slice"]


def units(tier, seed):
    _TIER[0] = tier
    us = []
    if tier == "quick":
        iters = [("L", 4), ("LTL", 4), ("TL", 3), ("LT", 3), ("LCL", 4), ("LSLEL", 3), ("LZL", 3), ("loop2", 4),
                 ("ifelse_first", 3), ("ifelse_second", 3), ("LTLTL", 3), ("LCLCL", 3), ("LXL", 3), ("loop_if", 2),
                 ("LTTL", 3), ("LTCTL", 3), ("TLTL", 3)]
        unlex = [("LTL", 3), ("loop2", 2)]
        sub = [(2, 1), (1, 2)]
        loop = [3]
        t = 200
    else:
        iters = [(s, ne) for s in SHAPES for ne in (2, 3, 4)] + [("LTL", 5), ("LTLTL", 5), ("loop2", 5), ("LCLCL", 5)]
        unlex = [("LTL", 3), ("LSLEL", 3), ("loop2", 3)]
        sub = [(3, 2), (2, 3), (4, 1)]
        loop = [4, 5]
        t = 1500
    for shape, ne in iters:
        us.append(Unit(
            name=f"c01.iter_segments[{shape},{ne}el]", functions=FUNCS_ITER,
            bounds={"slice_shape": shape, "regions": SHAPES[shape][0], "visit_order": SHAPES[shape][1],
                    "lexed_elements": ne, "all lengths": "unbounded (>=1)"},
            make=make_iter(shape, ne), replay=replay_iter(shape, ne),
            stubs=["texts are opaque (AbsStr): only lengths are observed", "lexer logger -> null",
                   "BlockTracker._map keys hashed to 0 (all keys symbolic)"],
            assumptions=["the TemplatedFile satisfies the C07 tiling invariant (slices contiguous in templated space)",
                         "lexed elements tile the rendered text (C01 loop kernel)"],
            outside=["content of the dialect regexes (which text becomes which token)", "slice shapes not listed"],
            sharded=True, timeout_s=t))
    for shape, ne in unlex:
        us.append(Unit(
            name=f"c01.lxr[{shape},{ne}el]", functions=FUNCS_ITER,
            bounds={"slice_shape": shape, "lexed_elements": ne, "unlexable flag": "symbolic per element"},
            make=make_iter(shape, ne, True), replay=replay_iter(shape, ne, True),
            witnesses_required=["lxr"], sharded=True, timeout_s=t))
    for d, tr in sub:
        us.append(Unit(
            name=f"c01.subdivide[{d}div,{tr}trim]",
            functions=["sqlfluff.core.parser.lexer.StringLexer.match", "sqlfluff.core.parser.lexer.StringLexer._subdivide",
                       "sqlfluff.core.parser.lexer.StringLexer._trim_match"],
            bounds={"subdivider hits": d, "trim hits": tr, "text": "opaque, unbounded"},
            make=make_subdivide(d, tr), replay=replay_subdivide(d, tr),
            stubs=["subdivider.search / trim_post_subdivide.search -> arbitrary non-empty in-bounds span or None",
                   "_match -> arbitrary non-empty prefix"],
            witnesses_required=["three_elements"], sharded=True, timeout_s=t))
    for mt in loop:
        us.append(Unit(
            name=f"c01.lex_loop[{mt}tokens]",
            functions=["sqlfluff.core.parser.lexer.PyLexer.lex", "sqlfluff.core.parser.lexer.PyLexer.lex_match"],
            bounds={"tokens": mt, "input length": "unbounded"},
            make=make_loop(mt), replay=None,
            stubs=["matchers -> arbitrary prefix; whitespace/newline/last-resort obey the per-dialect regex contract "
                   "proved by c01.regex_totality"],
            witnesses_required=["last_resort_used"], sharded=True, timeout_s=t))
    from harness import tmpl_python
    us += tmpl_python.process_units("C01", tier)
    us.append(Unit(
        name="c01.regex_totality[all dialects]",
        functions=["live lexer matchers of every bundled dialect (whitespace, newline) + PyLexer last-resort pattern"],
        bounds={"dialects": "all bundled", "string length": "unbounded"},
        run=run_regex_totality, replay=replay_regex_totality,
        stubs=["regex -> z3 Re translation (models/regex2z3.py), validated against `re` on 1.7k strings"],
        sharded=False, timeout_s=300))
    return us
