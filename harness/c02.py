"""C02 Parsing is lossless: materialisation of match results + inductive step for the grammar producers."""
from __future__ import annotations

import z3

from lib.runner import Unit
from symlite.values import NullLogger, SymInt, choose, fresh_bool, fresh_int, hash_zero, lift

import sqlfluff.core.parser.match_result as mr
from sqlfluff.core import FluffConfig
from sqlfluff.core.errors import SQLParseError
from sqlfluff.core.parser.context import ParseContext
from sqlfluff.core.parser.grammar import AnyNumberOf, Bracketed, Delimited, OneOf, Sequence
from sqlfluff.core.parser.grammar.base import BaseGrammar
from sqlfluff.core.parser.markers import PositionMarker
from sqlfluff.core.parser.match_result import MatchResult
from sqlfluff.core.parser.parsers import StringParser
from sqlfluff.core.parser.segments import (BaseSegment, CodeSegment, Dedent, Indent, MetaSegment, RawSegment, SymbolSegment,
                                           UnparsableSegment, WhitespaceSegment)
from sqlfluff.core.parser.segments.file import BaseFileSegment
from sqlfluff.core.parser.types import ParseMode
from sqlfluff.core.templaters import TemplatedFile

KNOWN = {}
_CFG = None


def cfg():
    global _CFG
    if _CFG is None:
        _CFG = FluffConfig(overrides={"dialect": "ansi"})
    return _CFG


def _bind():
    mr.slice_length = lambda s: s.stop - s.start


class W(BaseSegment):
    type = "w"
    can_start_end_non_code = True


KINDS = {"a": CodeSegment, " ": WhitespaceSegment, ",": SymbolSegment, "(": SymbolSegment, ")": SymbolSegment}
KTYPE = {",": "comma", "(": "start_bracket", ")": "end_bracket"}


def mk_tokens(kinds):
    tf = TemplatedFile.from_string("".join(kinds))
    out = []
    for i, k in enumerate(kinds):
        kw = {"instance_types": (KTYPE[k],)} if k in KTYPE else {}
        out.append(KINDS[k](k, PositionMarker(slice(i, i + 1), slice(i, i + 1), tf), **kw))
    return tuple(out)


def sym_tokens(c, N, alphabet):
    kinds = [choose(c, f"tok{i}", list(alphabet)) for i in range(N)]
    return kinds, mk_tokens(kinds)


# ---------------------------------------------------------------- invariant I

def wf(m, lo, hi, toks=None, need_no_loose_code=False):
    """Invariant I as a z3 formula (structure of m is concrete, indices symbolic)."""
    s, e = lift(m.matched_slice.start), lift(m.matched_slice.stop)
    ok = z3.And(lift(lo) <= s, s <= e, e <= lift(hi))
    pos = s
    for ch in m.child_matches:
        cs, ce = lift(ch.matched_slice.start), lift(ch.matched_slice.stop)
        ok = z3.And(ok, pos <= cs, wf(ch, s, e, toks, False))
        pos = ce
    for i, _ in m.insert_segments:
        ok = z3.And(ok, s <= lift(i), lift(i) <= e)
        for ch in m.child_matches:
            ok = z3.And(ok, z3.Not(z3.And(lift(ch.matched_slice.start) < lift(i), lift(i) < lift(ch.matched_slice.stop))))
    if m.matched_class is not None or m.child_matches:
        ok = z3.And(ok, e > s)
    if need_no_loose_code and toks is not None and m.matched_class is None:
        # every code token claimed by an unclassed result sits inside one of its children
        for p, t in enumerate(toks):
            if t.is_code:
                inside = z3.Or(*[z3.And(lift(ch.matched_slice.start) <= p, p < lift(ch.matched_slice.stop))
                                 for ch in m.child_matches]) if m.child_matches else z3.BoolVal(False)
                ok = z3.And(ok, z3.Implies(z3.And(s <= p, p < e), inside))
    return ok


class Stub(BaseGrammar):
    """An element whose match() returns an ARBITRARY result satisfying invariant I and starting at idx."""

    def __init__(self, name, optional, c, rich=True, code_only=True):
        self.name, self._opt, self.c, self.calls, self.rich = name, optional, c, 0, rich
        self._elements = []
        self.terminators = ()
        self.reset_terminators = False
        self.allow_gaps = True
        self.optional = optional
        self.code_only = code_only

    def is_optional(self):
        return self._opt

    def simple(self, parse_context, crumbs=None):
        return None

    def cache_key(self):
        return self.name

    def __repr__(self):
        return f"<Stub {self.name}>"

    def match(self, segments, idx, parse_context):
        self.calls += 1
        c, tag = self.c, f"{self.name}_{self.calls}"
        n = len(segments)
        ln = fresh_int(c, f"{tag}_len", 0)
        c.assume(lift(idx) + ln.e <= n)
        if bool(ln == 0):
            if self.rich and bool(fresh_bool(c, f"{tag}_metaonly")):
                return MatchResult(slice(idx, idx), insert_segments=((idx, Indent),))
            return MatchResult.empty_at(idx)
        if self.code_only:
            # real element matches start and end on code (gaps are the producer's business)
            i0, i1 = int(idx), int(idx + ln)
            if not (segments[i0].is_code and segments[i1 - 1].is_code):
                from symlite.core import Abort
                raise Abort()
        if not self.rich or bool(fresh_bool(c, f"{tag}_classed")):
            return MatchResult(slice(idx, idx + ln), matched_class=W)
        # unclassed result with one classed child covering all of it but an optional insert at either end
        at_end = bool(fresh_bool(c, f"{tag}_ins_end"))
        ins = idx + ln if at_end else idx
        return MatchResult(slice(idx, idx + ln), insert_segments=((ins, Dedent if at_end else Indent),),
                           child_matches=(MatchResult(slice(idx, idx + ln), matched_class=W),))


# ---------------------------------------------------------------- 1. materialisation

_META_CLASSES = {}


def _meta(k):
    if k not in _META_CLASSES:
        _META_CLASSES[k] = type(f"M{k}", (Indent,), {})
    return _META_CLASSES[k]


def leaves(seg):
    if seg.segments:
        out = []
        for s in seg.segments:
            out += leaves(s)
        return out
    return [seg]


def same_token(x, y):
    """Same lexed token: identical object, or (parsers re-class tokens) same text at the same source/templated position."""
    return x is y or (x.raw == y.raw and x.pos_marker.source_slice == y.pos_marker.source_slice
                      and x.pos_marker.templated_slice == y.pos_marker.templated_slice)


class Chunk:
    """A run of consecutive input tokens toks[lo:hi] carried through apply() as one opaque element."""
    is_meta = False
    segments = ()

    def __init__(self, rope):
        self.rope = rope


class TokRope:
    """The input token tuple as an opaque sequence of SYMBOLIC length: slicing never forks (RopeStr arithmetic)."""

    def __init__(self, rope, tf):
        self.rope, self.tf = rope, tf

    def symlen(self):
        return self.rope.symlen()

    def __getitem__(self, k):
        if isinstance(k, slice):
            return TokRope(self.rope[k], self.tf)

        class _Tok:
            pos_marker = PositionMarker(slice(k, k + 1), slice(k, k + 1), self.tf)
        return _Tok()

    def __iter__(self):
        yield Chunk(self.rope)

    def __bool__(self):
        return bool(self.rope.symlen() > 0)


class LightW(BaseSegment):
    """Container class for the materialisation harness (keeps children only; BaseSegment.__init__ is C03's subject)."""
    type = "lw"

    def __init__(self, segments, pos_marker=None, **kw):
        self.__dict__["segments"] = tuple(segments)

    @classmethod
    def from_result_segments(cls, result_segments, segment_kwargs):
        return cls(result_segments)


class StubChild(MatchResult):
    """A child match whose own apply() is taken as correct (induction hypothesis): it yields one opaque element
    standing for 'the materialisation of toks[start:stop] with this child's inserts'."""

    def apply(self, segments, parse_context=None):
        return (Chunk(segments.rope[self.matched_slice]),)


def make_apply(n_children, n_inserts):
    """Inductive step of MatchResult.apply: a node with <= n_children arbitrary I-children and <= n_inserts inserts."""
    from symlite.values import RopeStr, sym_len

    def factory(excluded=frozenset()):
        _bind()
        mr.len = sym_len

        def harness(c):
            base = RopeStr.base(c, "toks")
            n = base.symlen()
            c.assume(n.e >= 1)  # apply() is only reached with a non-empty token tuple (root_parse returns early otherwise)
            tf = TemplatedFile.__new__(TemplatedFile)
            tf._source_newlines = []
            tf._templated_newlines = []
            toks = TokRope(base, tf)
            a = fresh_int(c, "a", 0)
            b = fresh_int(c, "b")
            c.assume(z3.And(a.e <= b.e, b.e <= n.e))
            zero = bool(a == b)
            children, pos = [], a
            if not zero:
                for j in range(n_children):
                    if not bool(fresh_bool(c, f"child{j}")):
                        break
                    cs = fresh_int(c, f"c{j}s")
                    ce = fresh_int(c, f"c{j}e")
                    c.assume(z3.And(pos.e <= cs.e, cs.e <= ce.e, ce.e <= b.e))
                    children.append(StubChild(slice(cs, ce)))
                    pos = ce
            metas, ins = [], ()
            for j in range(n_inserts):
                if not bool(fresh_bool(c, f"hasins{j}")):
                    break
                i = fresh_int(c, f"ins{j}")
                c.assume(z3.And(a.e <= i.e, i.e <= b.e))
                for ch in children:
                    c.assume(z3.Not(z3.And(lift(ch.matched_slice.start) < i.e, i.e < lift(ch.matched_slice.stop))))
                ins += ((i, _meta(j)),)
                metas.append((_meta(j), i))
            classed = (not zero) and bool(fresh_bool(c, "classed"))
            root = MatchResult(slice(a, b), matched_class=LightW if classed else None, insert_segments=ins,
                               child_matches=tuple(children))
            with hash_zero():
                out = root.apply(toks)  # REAL
            if classed and not (len(out) == 1 and isinstance(out[0], LightW)):
                return False
            flat = []
            for s in out:
                flat += leaves(s)
            cat = RopeStr([])
            for s in flat:
                if isinstance(s, Chunk):
                    cat = cat + s.rope
            z = cat.tiles("toks", a, b)
            z = z3.And(z, z3.BoolVal(len([s for s in flat if s.is_meta]) == len(metas)))
            for cls, idx in metas:
                where = [k for k, s in enumerate(flat) if type(s) is cls]
                if len(where) != 1:
                    return False
                before = z3.IntVal(0)
                for s in flat[:where[0]]:
                    if isinstance(s, Chunk):
                        before = before + s.rope.symlen().e
                z = z3.And(z, lift(idx) - a.e == before)
            if len(metas) >= 2:
                c.witness("two_inserts")
            if len(children) >= 2:
                c.witness("two_children")
            if zero and metas:
                c.witness("zero_length_with_insert")
            return z
        return harness
    return factory


def replay_apply(n_children, n_inserts):
    """Concrete replay with REAL tokens and real (classed) child matches on the unmodified MatchResult.apply."""
    def rp(cex):
        for nm in ("len",):
            if nm in vars(mr):
                delattr(mr, nm)
        n = int(cex.get("len_toks", 1))
        toks = mk_tokens("a" * n)
        a, b = int(cex.get("a", 0)), int(cex.get("b", 0))
        children = []
        for j in range(n_children):
            if not cex.get(f"child{j}") or a == b:
                break
            cs, ce = int(cex[f"c{j}s"]), int(cex[f"c{j}e"])
            children.append(MatchResult(slice(cs, ce), matched_class=W if ce > cs else None))
        ins, metas = (), []
        for j in range(n_inserts):
            if not cex.get(f"hasins{j}"):
                break
            ins += ((int(cex[f"ins{j}"]), _meta(j)),)
            metas.append((_meta(j), int(cex[f"ins{j}"])))
        classed = a != b and bool(cex.get("classed"))
        root = MatchResult(slice(a, b), matched_class=W if classed else None, insert_segments=ins,
                           child_matches=tuple(children))
        out = root.apply(toks)
        flat = []
        for s in out:
            flat += leaves(s)
        nm = [s for s in flat if not s.is_meta]
        problems = []
        if not (len(nm) == b - a and all(x is y for x, y in zip(nm, toks[a:b]))):
            problems.append(f"leaves {[id(x) for x in nm]} are not tokens[{a}:{b}] in order")
        for cls, idx in metas:
            where = [k for k, s in enumerate(flat) if type(s) is cls]
            if len(where) != 1 or len([s for s in flat[:where[0]] if not s.is_meta]) != idx - a:
                problems.append(f"insert at {idx} materialised at leaf positions {where}")
        return (f"MatchResult {root} over {n} tokens: " + "; ".join(problems)) if problems else None
    return rp


# ---------------------------------------------------------------- 2. producers (inductive step)

def _ctx():
    return ParseContext.from_config(cfg())


def make_producer(which, N, mode):
    alphabet = {"sequence": "a ", "anyof": "a ", "oneof": "a ", "delimited": "a ,", "bracketed": "a ()"}[which]

    def factory(excluded=frozenset()):
        _bind()

        def harness(c):
            kinds, toks = sym_tokens(c, N, alphabet)
            ctx = _ctx()
            e1, e2, e3 = Stub("e1", False, c), Stub("e2", True, c), Stub("e3", False, c)
            pm = ParseMode[mode]
            if which == "sequence":
                g = Sequence(e1, Indent, e2, e3, Dedent, parse_mode=pm)
            elif which == "anyof":
                g = AnyNumberOf(e1, e3, min_times=1, parse_mode=pm)
            elif which == "oneof":
                g = OneOf(e1, e3, parse_mode=pm)
            elif which == "delimited":
                opt = bool(fresh_bool(c, "optional_delimiter"))
                from sqlfluff.core.parser.grammar.delimited import OptionallyDelimited
                # at N >= 5 only the optional-delimiter fork is kept (the other two options multiply the space by 4)
                trailing = bool(fresh_bool(c, "allow_trailing")) if N <= 4 else True
                min_d = int(fresh_int(c, "min_delimiters", 0, 1)) if N <= 4 else 0
                g = (OptionallyDelimited if opt else Delimited)(e1, allow_trailing=trailing, min_delimiters=min_d)
                if opt:
                    c.witness("optional_delimiter")
            else:
                g = Bracketed(e1, e2, parse_mode=pm)
            idx = fresh_int(c, "start_idx", 0, N - 1)  # callers never match at idx == len(segments)
            i0 = int(idx)
            if not toks[i0].is_code:
                from symlite.core import Abort
                raise Abort()  # producers are always called on a code token (their callers skip gaps)
            try:
                m = g.match(toks, i0, ctx)  # REAL
            except SQLParseError:
                if which == "bracketed" and pm != ParseMode.STRICT:
                    c.witness("unclosed_bracket_error")
                    return True  # declared: unclosed bracket in a greedy mode
                raise
            ok = wf(m, i0, N, toks, need_no_loose_code=True)
            if m:
                ok = z3.And(ok, lift(m.matched_slice.start) == i0)
                c.witness("matched")
            if any(ch.matched_class is UnparsableSegment for ch in m.child_matches) or m.matched_class is UnparsableSegment:
                c.witness("unparsable")
            # and the result must materialise losslessly
            if m:
                with hash_zero():
                    out = m.apply(toks)
                flat = []
                for s in out:
                    flat += leaves(s)
                nm = [s for s in flat if not s.is_meta]
                a, b = int(m.matched_slice.start), int(m.matched_slice.stop)
                if not (len(nm) == b - a and all(same_token(x, y) for x, y in zip(nm, toks[a:b]))):
                    return False
            return ok
        return harness
    return factory


def replay_producer(which, N, mode):
    return None


# ---------------------------------------------------------------- 3. root_parse

def make_root(N):
    def factory(excluded=frozenset()):
        _bind()

        def harness(c):
            kinds, toks = sym_tokens(c, N, "a ")
            stub = Stub("root", False, c, rich=True, code_only=False)

            class F(BaseFileSegment):
                match_grammar = stub
            ctx = _ctx()
            with hash_zero():
                root = F.root_parse(toks, ctx)  # REAL
            flat = [s for s in leaves(root) if not s.is_meta]
            if not (len(flat) == N and all(same_token(x, y) for x, y in zip(flat, toks))):
                return False
            # any code token not covered by the grammar match is inside an unparsable node
            unp = [s for s in root.segments if s.is_type("unparsable")]
            if unp:
                c.witness("unparsable_tail")
            loose_code = [s for s in root.segments if not s.segments and s.is_code and not s.is_meta]
            return not loose_code or N == 0
        return harness
    return factory


FUNCS = ["sqlfluff.core.parser.match_result.MatchResult.apply", "sqlfluff.core.parser.match_result._get_point_pos_at_idx",
         "sqlfluff.core.parser.match_result.MatchResult.wrap/append/__post_init__",
         "sqlfluff.core.parser.segments.base.BaseSegment.__init__/from_result_segments"]


def units(tier, seed):
    us = []
    ap = [(2, 2), (3, 1)] if tier == "quick" else [(3, 3), (4, 2), (4, 3)]
    for nc, ni in ap:
        us.append(Unit(
            name=f"c02.apply_step[children<={nc},inserts<={ni}]", functions=FUNCS,
            bounds={"tokens": "unbounded (opaque token sequence of symbolic length)", "children of the node": nc,
                    "inserts of the node": ni, "slice bounds": "all", "depth": "any (inductive step: children's own "
                    "apply() is the induction hypothesis)"},
            make=make_apply(nc, ni), replay=replay_apply(nc, ni),
            stubs=["token tuple -> TokRope (opaque sequence; slices are (lo,hi) pieces)", "container class -> LightW (keeps children)",
                   "child MatchResult.apply -> one opaque element for toks[start:stop] (induction hypothesis)",
                   "match_result.len = sym_len, slice_length symbolic"],
            assumptions=["the MatchResult satisfies invariant I (ordered non-overlapping children inside the parent, "
                         "inserts inside the slice and not strictly inside a child, zero-length => no class/children)"],
            witnesses_required=(["two_inserts"] if ni > 1 else []) + ["two_children", "zero_length_with_insert"],
            sharded=True, timeout_s=200 if tier == "quick" else 1500))
    prods = ([("sequence", 4, "STRICT"), ("sequence", 4, "GREEDY"), ("sequence", 3, "GREEDY_ONCE_STARTED"),
              ("anyof", 3, "STRICT"), ("oneof", 3, "STRICT"), ("delimited", 4, "STRICT"), ("bracketed", 4, "STRICT"),
              ("bracketed", 4, "GREEDY")]
             if tier == "quick" else
             [(w, n, m) for w in ("sequence", "bracketed") for n in (4, 5) for m in ("STRICT", "GREEDY", "GREEDY_ONCE_STARTED")
              if not (w == "bracketed" and m == "GREEDY_ONCE_STARTED")]
             + [("anyof", 4, "STRICT"), ("anyof", 4, "GREEDY"), ("oneof", 4, "STRICT"), ("oneof", 4, "GREEDY"),
                ("delimited", 4, "STRICT"), ("delimited", 5, "STRICT")])
    for which, N, mode in prods:
        us.append(Unit(
            name=f"c02.producer[{which},{mode},N={N}]",
            functions=[{"sequence": "sqlfluff.core.parser.grammar.sequence.Sequence.match",
                        "anyof": "sqlfluff.core.parser.grammar.anyof.AnyNumberOf.match",
                        "oneof": "sqlfluff.core.parser.grammar.anyof.OneOf.match",
                        "delimited": "sqlfluff.core.parser.grammar.delimited.Delimited.match",
                        "bracketed": "sqlfluff.core.parser.grammar.sequence.Bracketed.match"}[which],
                       "sqlfluff.core.parser.grammar.sequence._flush_metas",
                       "sqlfluff.core.parser.match_algorithms.longest_match/greedy_match/trim_to_terminator/next_match/"
                       "skip_start_index_forward_to_code/skip_stop_index_backward_to_code/prune_options",
                       "sqlfluff.core.parser.match_result.MatchResult.apply"],
            bounds={"tokens": N, "token kinds": "all patterns over the producer's alphabet (forked)", "parse_mode": mode,
                    "child results": "arbitrary I-results (empty / meta-only / classed / unclassed+child+insert)"},
            make=make_producer(which, N, mode), replay="concrete",
            stubs=["child grammars -> Stub.match returning an arbitrary result satisfying invariant I, starting at idx, "
                   "starting and ending on code tokens"],
            assumptions=["induction hypothesis: children return I-results"],
            outside=["termination / intended parse of the composed recursion over a real dialect"],
            witnesses_required=["matched"], sharded=True, timeout_s=200 if tier == "quick" else 1500))
    for N in ([3, 4] if tier == "quick" else [4, 5, 6]):
        us.append(Unit(
            name=f"c02.root_parse[N={N}]",
            functions=["sqlfluff.core.parser.segments.file.BaseFileSegment.root_parse"],
            bounds={"tokens": N, "token kinds": "code/whitespace patterns (forked)"},
            make=make_root(N), replay="concrete",
            stubs=["match_grammar.match -> arbitrary I-result over the trimmed range"],
            witnesses_required=["unparsable_tail"], sharded=True, timeout_s=200 if tier == "quick" else 1500))
    return us
