"""C03 Parse trees are well-formed and indentation markers balance."""
from __future__ import annotations

import glob
import itertools
import os
import time

import z3

from lib.runner import Outcome, Unit
from symlite.core import Stats
from symlite.values import SymInt, choose, fresh_bool, fresh_int, hash_zero, lift, sym_max, sym_min

import sqlfluff.core.parser.markers as mk
import sqlfluff.core.parser.match_result as mr
from sqlfluff.core.parser.grammar import Bracketed, Sequence
from sqlfluff.core.parser.markers import PositionMarker
from sqlfluff.core.parser.match_result import MatchResult
from sqlfluff.core.parser.segments import (BaseSegment, CodeSegment, Dedent, Indent, RawSegment, WhitespaceSegment)
from sqlfluff.core.parser.types import ParseMode
from sqlfluff.core.templaters import TemplatedFile

from harness import c02

KNOWN = {}
REPO = "/repo"


# ---------------------------------------------------------------- 1. positions

class P(BaseSegment):
    type = "p"


def make_positions(NC):
    def factory(excluded=frozenset()):
        mk.min = sym_min
        mk.max = sym_max

        def harness(c):
            tf = TemplatedFile.__new__(TemplatedFile)
            tf._source_newlines = []
            tf._templated_newlines = []
            kids = []
            sl, tl = [], []
            codes = []
            for i in range(NC):
                a = fresh_int(c, f"s{i}a", 0)
                b = fresh_int(c, f"s{i}b")
                ta = fresh_int(c, f"t{i}a", 0)
                tb = fresh_int(c, f"t{i}b")
                c.assume(z3.And(a.e <= b.e, ta.e <= tb.e))
                code = bool(fresh_bool(c, f"code{i}"))
                cls = CodeSegment if code else WhitespaceSegment
                kids.append(cls("x", PositionMarker(slice(a, b), slice(ta, tb), tf)))
                sl.append((a, b))
                tl.append((ta, tb))
                codes.append(code)
            should_fail = not (codes[0] and codes[-1])
            try:
                with hash_zero():
                    seg = P(tuple(kids))  # REAL BaseSegment.__init__: from_child_markers + validate_non_code_ends
            except AssertionError:
                if should_fail:
                    c.witness("non_code_end_rejected")
                    return True
                raise
            if should_fail:
                return False  # a node beginning/ending with whitespace was accepted
            pm = seg.pos_marker
            ok = z3.BoolVal(True)
            for (lo, hi), sls in ((pm.source_slice.start, pm.source_slice.stop), sl), ((pm.templated_slice.start, pm.templated_slice.stop), tl):
                ok = z3.And(ok, z3.And(*[lift(lo) <= x.e for x, _ in sls]), z3.Or(*[lift(lo) == x.e for x, _ in sls]),
                            z3.And(*[lift(hi) >= y.e for _, y in sls]), z3.Or(*[lift(hi) == y.e for _, y in sls]))
            c.witness("accepted")
            return ok
        return harness
    return factory


def replay_positions(NC):
    def rp(cex):
        for nm in ("min", "max"):
            if nm in vars(mk):
                delattr(mk, nm)
        tf = TemplatedFile.from_string("x" * 4)
        kids, sl, tl, codes = [], [], [], []
        for i in range(NC):
            a, b, ta, tb = (int(cex.get(f"s{i}a", 0)), int(cex.get(f"s{i}b", 0)), int(cex.get(f"t{i}a", 0)), int(cex.get(f"t{i}b", 0)))
            code = bool(cex.get(f"code{i}"))
            kids.append((CodeSegment if code else WhitespaceSegment)("x", PositionMarker(slice(a, b), slice(ta, tb), tf)))
            sl.append((a, b))
            tl.append((ta, tb))
            codes.append(code)
        should_fail = not (codes[0] and codes[-1])
        try:
            seg = P(tuple(kids))
        except AssertionError:
            return None if should_fail else "a node with code at both ends was rejected"
        if should_fail:
            return f"a node {'beginning' if not codes[0] else 'ending'} with whitespace was accepted (children code flags {codes})"
        pm = seg.pos_marker
        exp_s = slice(min(a for a, _ in sl), max(b for _, b in sl))
        exp_t = slice(min(a for a, _ in tl), max(b for _, b in tl))
        if (pm.source_slice, pm.templated_slice) != (exp_s, exp_t):
            return f"children source {sl} templated {tl}: parent spans {pm.source_slice}/{pm.templated_slice}, expected {exp_s}/{exp_t}"
        return None
    return rp


# ---------------------------------------------------------------- 2. rule lemmas on the real match()

def A(m):
    """Net indent value of every insert anywhere in the result tree."""
    return sum(cls.indent_val for _, cls in m.insert_segments) + sum(A(ch) for ch in m.child_matches)


def Wv(m):
    """Net indent value of the inserts that sit inside a classed child (what survives Bracketed's content copy)."""
    if m.matched_class is not None:
        return A(m)
    return sum(Wv(ch) for ch in m.child_matches)


class LStub(c02.Stub):
    """Stub child whose result carries loose and/or wrapped inserts (records what it returned)."""

    def __init__(self, name, optional, c):
        super().__init__(name, optional, c)
        self.results = []

    def match(self, segments, idx, parse_context):
        self.calls += 1
        c, tag = self.c, f"{self.name}_{self.calls}"
        ln = fresh_int(c, f"{tag}_len", 0)
        c.assume(lift(idx) + ln.e <= len(segments))
        if bool(ln == 0):
            r = MatchResult.empty_at(idx)
            self.results.append(r)
            return r
        i0, i1 = int(idx), int(idx + ln)
        if not (segments[i0].is_code and segments[i1 - 1].is_code):
            from symlite.core import Abort
            raise Abort()
        shape = int(fresh_int(c, f"{tag}_shape", 0, 3))
        sl = slice(i0, i1)
        if shape == 0:
            r = MatchResult(sl, matched_class=c02.W)
        elif shape == 1:  # classed with its own (wrapped) insert
            r = MatchResult(sl, matched_class=c02.W, insert_segments=((i0, Indent),))
        elif shape == 2:  # unclassed: loose insert + classed child
            r = MatchResult(sl, insert_segments=((i1, Dedent),), child_matches=(MatchResult(sl, matched_class=c02.W),))
        else:             # unclassed: loose insert + classed child that itself wraps an insert
            r = MatchResult(sl, insert_segments=((i0, Indent),),
                            child_matches=(MatchResult(sl, matched_class=c02.W, insert_segments=((i1, Dedent),)),))
        self.results.append(r)
        return r


def make_lemma(which, N):
    alphabet = {"sequence": "a ", "bracketed": "a ()"}[which]

    def factory(excluded=frozenset()):
        c02._bind()

        def harness(c):
            kinds, toks = c02.sym_tokens(c, N, alphabet)
            ctx = c02._ctx()
            e1, e2, e3 = LStub("e1", False, c), LStub("e2", True, c), LStub("e3", False, c)
            if which == "sequence":
                g = Sequence(e1, Indent, e2, Indent, e3, Dedent, Dedent)
                own = 0
            else:
                g = Bracketed(e1, Indent, e2)
                own = 0
            i0 = int(fresh_int(c, "start_idx", 0, N - 1))
            if not toks[i0].is_code:
                from symlite.core import Abort
                raise Abort()
            m = g.match(toks, i0, ctx)  # REAL, STRICT
            if not m:
                return True
            used = [r for s in (e1, e2, e3) for r in s.results if r and _inside(r, m)]
            if which == "sequence":
                okA = A(m) == own + sum(A(r) for r in used)
                okW = Wv(m) == sum(Wv(r) for r in used)
                c.witness("seq_complete")
            else:
                # Bracketed: +1 -1 around the WRAPPED part of its content; loose content metas (own Indent element
                # and the loose inserts of unclassed children) are dropped; round brackets persist => all wrapped
                okA = A(m) == 1 - 1 + sum(Wv(r) for r in used)
                okW = Wv(m) == A(m)
                c.witness("bracket_complete")
                if any(A(r) != Wv(r) for r in used):
                    c.witness("loose_dropped")
            return bool(okA and okW)
        return harness
    return factory


def _inside(r, m):
    """Is stub result r part of the final tree m (by identity of the classed MatchResult objects)?"""
    targets = {id(x) for x in _walk(m)}
    return any(id(x) in targets for x in _walk(r) if x.matched_class is not None)


def _walk(m):
    yield m
    for ch in m.child_matches:
        yield from _walk(ch)


# ---------------------------------------------------------------- 3. grammar-level balance (z3 Datalog) per dialect

def _assignments(flags, tier):
    base = [{}, {f: True for f in flags}]
    singles = [{f: True} for f in flags]
    if tier == "quick":
        return base + singles
    return [dict(zip(flags, vals)) for vals in itertools.product([False, True], repeat=len(flags))]


def real_balance(sql, label, flags=None):
    """Parse with the REAL parser (indentation flags as in the candidate); returns (clean, final_balance, min_prefix)."""
    from sqlfluff.core import FluffConfig, Linter
    lin = Linter(config=FluffConfig(overrides={"dialect": label}, configs={"indentation": dict(flags or {})}))
    parsed = lin.parse_string(sql)
    tree = parsed.tree
    if tree is None:
        return False, 0, 0
    clean = not parsed.violations and "unparsable" not in tree.descendant_type_set
    bal, mn = 0, 0
    for s in tree.raw_segments:
        if s.is_meta:
            bal += getattr(s, "indent_val", 0)
            mn = min(mn, bal)
    return clean, bal, mn


def find_reproducer(label, keywords, limit=60, flags=None):
    files = sorted(glob.glob(os.path.join(REPO, "test/fixtures/dialects", label, "*.sql")))
    scored = []
    for f in files:
        try:
            txt = open(f, encoding="utf8").read()
        except Exception:
            continue
        up = txt.upper()
        score = sum(1 for k in keywords if k in up)
        if score:
            scored.append((-score, f, txt))
    for _, f, txt in sorted(scored)[:limit]:
        try:
            clean, bal, mn = real_balance(txt, label, flags)
        except Exception:
            continue
        if clean and (bal != 0 or mn < 0):
            return f, bal, mn
    return None


def run_balance(label, tier):
    def run(excluded):
        from models.grammar_balance import BalanceModel, conditional_flags, culprits, python_fixpoint
        from models.grammar_graph import Graph
        st = Stats()
        g = Graph(label)
        flags = conditional_flags(g)
        samples, unconfirmed = [], []
        for asg in _assignments(flags, tier):
            t = time.time()
            bm = BalanceModel(g, asg)
            r, q, s = bm.unbalanced_root()
            if r not in (z3.sat, z3.unsat):   # rare under heavy load: ask a freshly built fixedpoint once more
                bm = BalanceModel(g, asg)
                r, q2, s = bm.unbalanced_root()
                q += q2
            nonvac = bm.fp.query(bm.R["BalA"](bm.nv(g.root), bm.zero, bm.zero))
            st.paths += 1
            st.nontrivial += 1
            st.queries += q + 1
            st.solver_s += time.time() - t
            if nonvac != z3.sat:
                return Outcome("", "VACUOUS", st, error=f"{label}: BalA(root,0,0) not derivable: the rule model yields no complete parse")
            if len(samples) < 2:
                samples.append({"dialect": label, "flags": asg, "nodes": len(g.nodes), "facts": bm.nfacts, "verdict": str(r)})
            if r == z3.unsat:
                continue
            if r != z3.sat:
                st.unknown += 1
                continue
            # candidate: localise and try to reproduce with the real parser on the dialect's own fixtures
            Av, Wd = python_fixpoint(g, asg)
            if all(v == (0, 0) for v in Av[g.root]):
                return Outcome("", "ERROR", st, error=f"{label}: Datalog says unbalanced, reference fixpoint says balanced")
            cul = culprits(g, asg)
            kws = set()
            for nd, vals, k in cul:
                kws |= set(k)
            # the model reads an unlisted flag as False; the real config has its own defaults, so spell every flag out
            full = {f: bool(asg.get(f, False)) for f in flags}
            rep = find_reproducer(label, sorted(kws), flags=full) if kws else None
            if kws and not rep:   # a second, wider pass before the candidate is filed as unconfirmed
                rep = find_reproducer(label, sorted(kws), limit=400, flags=full)
            desc = {"dialect": label, "flags": full, "root_values": sorted(Av[g.root]),
                    "culprits": [f"{nd.obj.__name__}{vals}" for nd, vals, _ in cul][:6], "keywords": sorted(kws)[:10]}
            if rep:
                f, bal, mn = rep
                desc["fixture"] = f
                return Outcome("", "CEX", st, cex=desc, cex_kind="unbalanced grammar",
                               replayed=f"{label}: {os.path.relpath(f, REPO)} parses cleanly with indent balance {bal} (min prefix {mn}); "
                                        f"culprit grammar: {desc['culprits'][:3]}", samples=samples)
            unconfirmed.append(desc)
        if unconfirmed:
            # the model derives an unbalanced complete parse but none of the dialect's fixtures reproduces it with the real
            # parser: neither a violation (nothing to replay) nor a pass - reported as inconclusive
            return Outcome("", "INCOMPLETE", st, samples=samples, error=f"unconfirmed candidates: {unconfirmed[:2]}",
                           extra={"candidates_unconfirmed": unconfirmed, "flags": flags})
        return Outcome("", "PROVED" if not st.unknown else "INCOMPLETE", st, samples=samples,
                       extra={"candidates_unconfirmed": unconfirmed, "flags": flags})
    return run


def replay_balance(cex):
    if "fixture" not in cex:
        return None
    clean, bal, mn = real_balance(open(cex["fixture"], encoding="utf8").read(), cex["dialect"], cex.get("flags"))
    if clean and (bal != 0 or mn < 0):
        return f"{cex['fixture']} parses cleanly with indent balance {bal} (min prefix {mn})"
    return None


def units(tier, seed):
    from sqlfluff.core.dialects import dialect_readout
    us = []
    for nc in ([2, 3] if tier == "quick" else [2, 3, 4]):
        us.append(Unit(
            name=f"c03.positions[{nc} children]",
            functions=["sqlfluff.core.parser.markers.PositionMarker.from_child_markers",
                       "sqlfluff.core.parser.segments.base.BaseSegment.__init__/validate_non_code_ends/set_as_parent"],
            bounds={"children": nc, "child slices": "arbitrary (source and templated)", "code flags": "all"},
            make=make_positions(nc), replay=replay_positions(nc),
            stubs=["markers.min/max -> symbolic min/max (If-terms)"],
            witnesses_required=["accepted", "non_code_end_rejected"], sharded=False, timeout_s=300))
    for which, N in ([("sequence", 4), ("bracketed", 4)] if tier == "quick" else [("sequence", 5), ("bracketed", 5), ("bracketed", 6)]):
        us.append(Unit(
            name=f"c03.rule_lemma[{which},N={N}]",
            functions=["sqlfluff.core.parser.grammar.sequence.Sequence.match/_flush_metas" if which == "sequence"
                       else "sqlfluff.core.parser.grammar.sequence.Bracketed.match",
                       "sqlfluff.core.parser.match_result.MatchResult.append/wrap"],
            bounds={"tokens": N, "child result shapes": "classed / classed+own insert / unclassed+loose insert / both"},
            make=make_lemma(which, N), replay="concrete",
            stubs=["child grammars -> LStub (arbitrary length, 4 insert shapes)"],
            witnesses_required=["seq_complete"] if which == "sequence" else ["bracket_complete", "loose_dropped"],
            sharded=True, timeout_s=300 if tier == "quick" else 1500))
    for d in dialect_readout():
        us.append(Unit(
            name=f"c03.grammar_balance[{d.label}]",
            functions=[f"every grammar element reachable from the root of dialect {d.label} (live objects)",
                       "rule model of Sequence/Bracketed/AnyNumberOf/Delimited/Ref/segment-class (models/grammar_balance.py)"],
            bounds={"input length": "unbounded (fixpoint over derivations)", "values": "saturating at +-3",
                    "flag assignments": "all-false, all-true, each single flag" if tier == "quick" else "all 2^k"},
            run=run_balance(d.label, tier), replay=replay_balance,
            stubs=["z3 Fixedpoint(engine=datalog) over facts emitted from the live grammar graph"],
            assumptions=["rule model of each grammar class (lemmas checked by c03.rule_lemma units on the real match())",
                         "complete matches only (greedy partial matches are C02's unparsable handling)"],
            outside=["reindent.py's consumer", "positional containment after fixes"],
            sharded=False, timeout_s=900))
    return us
