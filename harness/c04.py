"""C04 Parse, lint and fix never crash (narrow: the limit checks and exception funnels named in the anchors)."""
from __future__ import annotations

import z3

from lib.runner import Unit
from symlite.values import NullLogger, SymInt, choose, fresh_bool, fresh_int, lift, sym_isinstance

import sqlfluff.core.linter.linter as lmod
from sqlfluff.core import FluffConfig, Linter
from sqlfluff.core.errors import SQLFluffSkipFile, SQLParseError, SQLTemplaterError
from sqlfluff.core.parser.context import ParseContext


def _known_f1_ansi(entry):
    import sqlfluff
    if entry["id"] != "F1:ansi":
        return None
    try:
        sqlfluff.lint("GRANT SELECT ON ALL MASKING POLICIES IN SCHEMA x TO y\n", dialect="ansi")
    except Exception as e:
        return f"sqlfluff.lint('GRANT SELECT ON ALL MASKING POLICIES IN SCHEMA x TO y') raises {type(e).__name__}"
    return None


def _known_f3(entry):
    lin = Linter(config=FluffConfig(overrides={"dialect": "ansi", "templater": "python"},
                                    configs={"templater": {"python": {"context": entry["replay"]["context"]}}}))
    try:
        lin.lint_string(entry["replay"]["source"])
    except Exception as e:
        return f"Linter.lint_string({entry['replay']['source']!r}) with the python templater raises {type(e).__name__}"
    return None


class _Known(dict):
    def get(self, k, d=None):
        if k == "F1:ansi":
            return _known_f1_ansi
        if k == "F3":
            return _known_f3
        return d


KNOWN = _Known()


def make_depth(levels):
    def factory(excluded=frozenset()):
        def harness(c):
            limit = fresh_int(c, "max_parse_depth", 0)
            start = fresh_int(c, "initial_depth", 0)
            ctx = ParseContext(dialect=None, max_parse_depth=limit)
            ctx.match_depth = start
            raised_at = None

            def nest(i):
                nonlocal raised_at
                if i == levels:
                    return
                with ctx.deeper_match(name=f"l{i}"):  # REAL
                    inner_before = ctx.match_depth
                    nest(i + 1)
                    if raised_at is None and not bool(ctx.match_depth == inner_before):
                        raise AssertionError("depth not restored after a nested match")
            try:
                nest(0)
            except SQLParseError:
                raised_at = True
            exceeded = z3.And(limit.e > 0, start.e + levels > limit.e)
            if raised_at:
                c.witness("limit_exceeded")
                return exceeded
            c.witness("within_limit")
            return z3.And(z3.Not(exceeded), lift(ctx.match_depth) == start.e)
        return harness
    return factory


def make_nodes():
    def factory(excluded=frozenset()):
        def harness(c):
            limit = fresh_int(c, "max_parse_nodes", 0)
            cur = fresh_int(c, "current", 0)
            n = fresh_int(c, "count", 0)
            ctx = ParseContext(dialect=None, max_parse_depth=0, max_parse_nodes=limit)
            ctx.current_parse_nodes = cur
            try:
                ctx.increment_parse_nodes(n)  # REAL
                raised = False
            except SQLParseError:
                raised = True
            c.witness("raised" if raised else "ok")
            return z3.BoolVal(raised) == z3.And(limit.e > 0, cur.e + n.e > limit.e)
        return harness
    return factory


def make_parse_tokens():
    def factory(excluded=frozenset()):
        lmod.linter_logger = NullLogger()

        def harness(c):
            lin = Linter(config=FluffConfig(overrides={"dialect": "ansi"}))
            toks = tuple(lin.parse_string("SELECT 1\n").tree.raw_segments)
            limit = fresh_int(c, "max_parse_nodes", 0)
            outcome = choose(c, "parser_outcome", ["tree", "none", "raise_with_segment", "raise_without_segment"])
            tree = lin.parse_string("SELECT 1\n").tree

            class Cfg:
                def get(self, key, section="core", default=None):
                    return limit if key == "max_parse_nodes" else default

                def get_section(self, key):
                    return None

            class StubParser:
                def __init__(self, config=None):
                    pass

                def parse(self, segments, fname=None, parse_statistics=False):
                    if outcome == "tree":
                        return tree
                    if outcome == "none":
                        return None
                    raise SQLParseError("boom", segment=toks[0] if outcome == "raise_with_segment" else None)
            real_parser = lmod.Parser
            lmod.Parser, lmod.isinstance = StubParser, sym_isinstance
            try:
                parsed, vs = Linter._parse_tokens(toks, Cfg(), fname="f.sql")  # REAL: must not raise
            finally:
                lmod.Parser = real_parser
                del lmod.isinstance
            over = z3.And(limit.e > 0, len(toks) > limit.e)
            if parsed is None and vs and "Maximum parse node count" in vs[0].desc():
                c.witness("node_limit_pre_check")
                return over
            if outcome.startswith("raise"):
                c.witness("parse_error_captured")
                return z3.And(z3.Not(over), z3.BoolVal(parsed is None and len(vs) == 1 and isinstance(vs[0], SQLParseError)
                                                       and vs[0].segment is not None))
            return z3.And(z3.Not(over), z3.BoolVal((parsed is tree) if outcome == "tree" else parsed is None))
        return harness
    return factory


def make_render():
    def factory(excluded=frozenset()):
        lmod.linter_logger = NullLogger()

        def harness(c):
            n_variants = int(fresh_int(c, "variants_before_failure", 0, 2))
            failure = choose(c, "failure", ["none", "templater_error", "skip_file"])
            from sqlfluff.core.templaters import TemplatedFile

            class T:
                name = "stub"

                def process_with_variants(self, *, in_str, fname, config, formatter=None):
                    for i in range(n_variants):
                        yield TemplatedFile.from_string(in_str), []
                    if failure == "templater_error":
                        raise SQLTemplaterError("bad template", line_no=1, line_pos=1)
                    if failure == "skip_file":
                        raise SQLFluffSkipFile("too big")
            cfg = FluffConfig(overrides={"dialect": "ansi"})
            lin = Linter(config=cfg)
            lin.templater = T()
            cfg._configs["core"]["templater_obj"] = lin.templater
            r = lin.render_string("select 1\r\n", "f.sql", cfg, "utf8")  # REAL: must not raise
            if failure == "templater_error":
                c.witness("tmp_captured")
                return len(r.templater_violations) == 1 and len(r.templated_variants) == n_variants
            if failure == "skip_file":
                c.witness("skip_captured")
            return len(r.templater_violations) == 0 and len(r.templated_variants) == n_variants and "\r" not in r.source_str
        return harness
    return factory


def make_runner_funnel():
    def factory(excluded=frozenset()):
        import sqlfluff.core.linter.runner as rmod
        rmod.linter_logger = NullLogger()

        def harness(c):
            n = 3
            fail = [choose(c, f"file{i}", ["ok", "valueerror", "recursionerror"]) for i in range(n)]

            class Templater:
                templates_in_worker = False

                def sequence_files(self, fnames, config=None, formatter=None):
                    return list(fnames)

            class Lin:
                templater = Templater()
                formatter = None
                config = None

                def render_file(self, fname, config):
                    return type("R", (), {"config": config, "fname": fname})()

                def get_rulepack(self, config=None):
                    return None

                def lint_rendered(self, rendered, rule_pack, fix, formatter=None):
                    k = fail[int(rendered.fname[1])]
                    if k == "valueerror":
                        raise ValueError("internal")
                    if k == "recursionerror":
                        raise RecursionError("deep")
                    return rendered.fname
            out = list(rmod.SequentialRunner(Lin(), None).run([f"f{i}" for i in range(n)], fix=False))  # REAL: must not raise
            if any(k != "ok" for k in fail):
                c.witness("internal_error_swallowed")
            return out == [f"f{i}" for i in range(n) if fail[i] == "ok"]
        return harness
    return factory


# ---------------------------------------------------------------- whole lint/fix run under a SYMBOLIC node limit
LIMIT_SQL = {
    "12 select targets on one line (LT09 adds tokens)": "select " + ",".join(f"c{i}" for i in range(12)) + " from t\n",
    "missing spaces and alias keyword": "select a+b  as x,c d from t where a=1\n",
}


def make_limit_run(sql, fix):
    """Linter.lint_string with max_parse_nodes = a symbolic integer: every comparison of the running node count with the
    limit (initial parse, pre-check, and every re-parse that validates a fix) is decided by the solver, so each interval
    of limits with a different behaviour is one path."""
    def factory(excluded=frozenset()):
        import sqlfluff.core.parser.context as pc
        lmod.isinstance = sym_isinstance
        pc.isinstance = sym_isinstance
        lmod.linter_logger = NullLogger()

        def harness(c):
            import logging
            n = fresh_int(c, "max_parse_nodes", 0)
            cfg = FluffConfig(overrides={"dialect": "ansi"})
            cfg._configs["core"]["max_parse_nodes"] = n
            logging.disable(logging.CRITICAL)
            try:
                lf = Linter(config=cfg).lint_string(sql, fix=fix)   # REAL: must return for EVERY limit
            finally:
                logging.disable(logging.NOTSET)
            codes = {v.rule_code() for v in lf.get_violations()}
            if "PRS" in codes:
                c.witness("limit_reported_as_PRS")
            else:
                c.witness("within_limit")
            return True
        return harness
    return factory


def replay_limit_run(sql, fix):
    def rp(cex):
        import sqlfluff.core.parser.context as pc
        for m in (lmod, pc):
            if "isinstance" in vars(m):
                delattr(m, "isinstance")
        n = int(cex.get("max_parse_nodes", 0))
        try:
            Linter(config=FluffConfig(overrides={"dialect": "ansi", "max_parse_nodes": n})).lint_string(sql, fix=fix)
        except Exception as e:
            return f"Linter.lint_string({sql!r}, fix={fix}) with max_parse_nodes={n} raises {type(e).__name__}: {str(e)[:90]}"
        return None
    return rp


# ---------------------------------------------------------------- files whose bytes do not fit the configured encoding
def _encoding_case(c_or_cex, get):
    from harness import c11
    ch = get("character", list(c11.CHARS))
    fe = get("file_written_in", c11.FILE_ENCODINGS)
    ce = get("configured_encoding", c11.CONF_ENCODINGS + ["ascii", "utf-32"])
    fix = get("fix_mode", [False, True])
    case = c11._roundtrip_case(ch, fe, ce, "comment", "\n")
    return ch, fe, ce, fix, case


def _lint_bytes(data, ce, fix):
    import os
    import shutil
    import tempfile
    d = tempfile.mkdtemp(prefix="c04_")
    try:
        p = os.path.join(d, "f.sql")
        open(p, "wb").write(data)
        lin = Linter(config=FluffConfig(overrides={"dialect": "ansi", "rules": "LT01", "encoding": ce}))
        return lin.lint_paths((p,), fix=fix, apply_fixes=fix)   # REAL: must return whatever the bytes are
    finally:
        shutil.rmtree(d, ignore_errors=True)


def make_encoding_mismatch():
    def factory(excluded=frozenset()):
        lmod.linter_logger = NullLogger()

        def harness(c):
            from harness import c11
            from symlite.core import Abort
            ch, fe, ce, fix, case = _encoding_case(c, lambda n, alts: choose(c, n, alts))
            if case is None:
                raise Abort()
            import logging
            logging.disable(logging.CRITICAL)
            try:
                _lint_bytes(case[2], ce, fix)
            finally:
                logging.disable(logging.NOTSET)
            if not c11._decodable(case[2], ce):
                c.witness("bytes_do_not_fit_the_encoding")
            else:
                c.witness("decodable")
            return True
        return harness
    return factory


def replay_encoding_mismatch(cex):
    ch, fe, ce, fix, case = _encoding_case(cex, lambda n, alts: alts[int(cex.get(n, 0))])
    if case is None:
        return None
    try:
        _lint_bytes(case[2], ce, fix)
    except Exception as e:
        return f"lint_paths(fix={fix}) on a file holding {case[2]!r} with encoding = {ce} raises {type(e).__name__}: {str(e)[:80]}"
    return None


# ---------------------------------------------------------------- lint_parsed over variants that did / did not parse
def make_variants():
    def factory(excluded=frozenset()):
        lmod.linter_logger = NullLogger()

        def harness(c):
            src = "select\n{% if True %}\n a\n{% else %}\n b\n{% endif %}\nfrom t\n"
            lin = Linter(config=FluffConfig(overrides={"dialect": "ansi", "templater": "jinja", "rules": "LT01,CP01"}))
            parsed = lin.parse_string(src)
            assert len(parsed.parsed_variants) >= 2, "template no longer yields two variants"
            variants = []
            for i, v in enumerate(parsed.parsed_variants[:3]):
                has_tree = bool(fresh_bool(c, f"variant{i}_has_tree"))
                variants.append(v if has_tree else v._replace(tree=None, parsing_violations=[SQLParseError("fatal", line_no=1, line_pos=1)]))
            fix = bool(fresh_bool(c, "fix_mode"))
            p2 = parsed._replace(parsed_variants=variants)
            lf = lin.lint_parsed(p2, lin.get_rulepack(), fix=fix)   # REAL
            if variants[0].tree is not None and any(v.tree is None for v in variants[1:]):
                c.witness("alternate_variant_without_tree")
            if all(v.tree is None for v in variants):
                c.witness("no_variant_parsed")
            return lf is not None
        return harness
    return factory


def units(tier, seed):
    return [
        Unit(name=f"c04.lint_under_symbolic_node_limit[{label},{'fix' if fix else 'lint'}]",
             functions=["sqlfluff.core.linter.linter.Linter.lint_string/_parse_tokens/lint_fix_parsed", "sqlfluff.core.linter.fix.apply_fixes",
                        "BaseSegment.validate_segment_with_reparse", "ParseContext.increment_parse_nodes/seed_parse_nodes/from_config"],
             bounds={"max_parse_nodes": "unbounded symbolic integer", "sql": sql, "rules": "all default", "mode": "fix" if fix else "lint"},
             make=make_limit_run(sql, fix), replay=replay_limit_run(sql, fix),
             stubs=["isinstance(limit, int) -> sym_isinstance in linter.py/context.py (the limit is a z3 integer)"],
             outside=["other inputs", "max_parse_depth (see c04.parse_depth_limit)"],
             witnesses_required=["limit_reported_as_PRS", "within_limit"], sharded=True, timeout_s=900)
        for label, sql in LIMIT_SQL.items() for fix in ([True] if tier == "quick" else [True, False])
    ] + [
        Unit(name="c04.file_bytes_vs_configured_encoding", functions=["sqlfluff.core.linter.linter.Linter.load_raw_file_and_config", "Linter.lint_paths",
                                                                      "sqlfluff.core.linter.runner.SequentialRunner.run"],
             bounds={"character in the file": "ascii / é / € / ÿ / 中", "file written in": "utf-8, utf-8-sig, latin-1, utf-16",
                     "configured encoding": "utf-8, utf-8-sig, latin-1, utf-16, ascii, utf-32", "mode": "lint / fix"},
             make=make_encoding_mismatch(), replay=replay_encoding_mismatch, stubs=["none: a real file per explored path"],
             witnesses_required=["bytes_do_not_fit_the_encoding", "decodable"], sharded=True, timeout_s=600),
        Unit(name="c04.lint_parsed_variants", functions=["sqlfluff.core.linter.linter.Linter.lint_parsed", "ParsedString.root_variant"],
             bounds={"rendering variants": "2-3 (real jinja if/else file)", "each variant": "parsed / fatal parse failure (no tree)", "mode": "lint / fix"},
             make=make_variants(), replay="concrete", stubs=["none beyond replacing a variant's tree by None"],
             witnesses_required=["alternate_variant_without_tree", "no_variant_parsed"], sharded=False, timeout_s=300),
    ] + [
        Unit(name=f"c04.parse_depth_limit[{k} nested matches]", functions=["sqlfluff.core.parser.context.ParseContext.deeper_match"],
             bounds={"nesting": k, "limit / initial depth": "unbounded"}, make=make_depth(k), replay="concrete",
             witnesses_required=["limit_exceeded", "within_limit"], sharded=False, timeout_s=120) for k in ([1, 3] if tier == "quick" else [1, 3, 5])
    ] + [
        Unit(name="c04.parse_node_limit", functions=["ParseContext.increment_parse_nodes/seed_parse_nodes"],
             bounds={"limit, current, count": "unbounded"}, make=make_nodes(), replay="concrete", witnesses_required=["raised", "ok"], sharded=False, timeout_s=60),
        Unit(name="c04.parse_tokens_funnel", functions=["sqlfluff.core.linter.linter.Linter._parse_tokens"],
             bounds={"max_parse_nodes": "unbounded", "parser outcome": "tree / None / SQLParseError with or without segment"},
             make=make_parse_tokens(), replay="concrete", stubs=["Parser -> stub with the forked outcome"],
             witnesses_required=["node_limit_pre_check", "parse_error_captured"], sharded=False, timeout_s=300),
        Unit(name="c04.render_string_funnel", functions=["sqlfluff.core.linter.linter.Linter.render_string", "Linter._normalise_newlines"],
             bounds={"variants yielded before the failure": "0..2", "failure": "none / SQLTemplaterError / SQLFluffSkipFile"},
             make=make_render(), replay="concrete", stubs=["templater -> stub generator"],
             witnesses_required=["tmp_captured", "skip_captured"], sharded=False, timeout_s=300),
        Unit(name="c04.runner_exception_funnel", functions=["sqlfluff.core.linter.runner.SequentialRunner.run", "BaseRunner._handle_lint_path_exception"],
             bounds={"files": 3, "per-file outcome": "ok / ValueError / RecursionError"}, make=make_runner_funnel(), replay="concrete",
             witnesses_required=["internal_error_swallowed"], sharded=False, timeout_s=120),
    ]
