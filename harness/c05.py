"""C05 No rule fails internally (anchored kernels: LT08 forward scan, BaseRule.crawl exception funnel)."""
from __future__ import annotations

from lib.runner import Unit
from symlite.values import NullLogger, choose, fresh_int

from sqlfluff.core import FluffConfig, Linter
from sqlfluff.core.parser.segments import (CodeSegment, CommentSegment, KeywordSegment, NewlineSegment, SymbolSegment,
                                           WhitespaceSegment)
from sqlfluff.rules.layout.LT08 import Rule_LT08

KNOWN = {}
KINDS = ["comma", "newline", "whitespace", "comment", "code", "cycle_keyword", "bracketed"]
SQL = {"comma": ",", "newline": "\n", "whitespace": " ", "comment": "/* c */", "code": "b AS (SELECT 2)", "cycle_keyword": "CYCLE x SET y USING z",
       "bracketed": "(SELECT 3)"}


def seg(kind):
    if kind == "comma":
        return SymbolSegment(",", instance_types=("comma",))
    if kind == "newline":
        return NewlineSegment("\n")
    if kind == "whitespace":
        return WhitespaceSegment(" ")
    if kind == "comment":
        return CommentSegment("/* c */", instance_types=("block_comment",))
    if kind == "cycle_keyword":
        return KeywordSegment("CYCLE")
    if kind == "bracketed":
        return CodeSegment("(x)", instance_types=("bracketed",))
    return CodeSegment("x")


def make_lt08(max_len):
    def factory(excluded=frozenset()):
        def harness(c):
            n = int(fresh_int(c, "n_following", 0, max_len))
            kinds = [choose(c, f"kind{i}", KINDS) for i in range(n)]
            segs = [seg("bracketed")] + [seg(k) for k in kinds]

            class Stmt:
                pos_marker = None

                def is_type(self, *t):
                    return "with_compound_statement" in t

                def iter_segments(self, expanding=None, pass_through=False):
                    return iter(segs)

            class Cfg:
                def get(self, key, section=None, default=None):
                    return "trailing"

            class Ctx:
                segment = Stmt()
                config = Cfg()
            rule = Rule_LT08(code="LT08", description="d")
            rule.logger = NullLogger()
            res = rule._eval(Ctx())  # REAL: must not raise for any child sequence
            if res:
                c.witness("violation_reported")
            if not kinds or all(k in ("comma", "newline", "whitespace", "comment") for k in kinds):
                c.witness("nothing_but_commas_and_noncode_follows")
            return True
        return harness
    return factory


def replay_lt08(max_len):
    def rp(cex):
        n = int(cex.get("n_following", 0))
        kinds = [KINDS[int(cex.get(f"kind{i}", 0))] for i in range(n)]
        sql = "WITH a AS (SELECT 1)" + "".join(SQL[k] for k in kinds) + "\n"
        hits = []
        for d in ("ansi", "postgres", "tsql", "bigquery"):
            r = Linter(config=FluffConfig(overrides={"dialect": d, "rules": "LT08"})).lint_string(sql)
            hits += [f"{d}: {v.desc()[:80]}" for v in r.violations if "Unexpected exception" in v.desc()]
        if hits:
            return f"{sql!r} -> {hits[0]}"
        # the kernel itself, natively
        from symlite.core import concrete_replay
        return concrete_replay(make_lt08(max_len)(frozenset()), cex)
    return rp


def make_funnel():
    """BaseRule.crawl turns an exception raised by _eval at ANY visited segment into an 'Unexpected exception' violation."""
    def factory(excluded=frozenset()):
        def harness(c):
            from sqlfluff.core.rules.base import BaseRule
            from sqlfluff.core.rules.crawlers import SegmentSeekerCrawler
            lin = Linter(config=FluffConfig(overrides={"dialect": "ansi"}))
            tree = lin.parse_string("SELECT a, b FROM t\n").tree
            n_visits = len(list(tree.recursive_crawl("column_reference", "select_clause_element")))
            k = int(fresh_int(c, "raise_at_visit", 0, n_visits))

            class Rule_ZZ99(BaseRule):
                """Stub."""
                groups = ("all",)
                crawl_behaviour = SegmentSeekerCrawler({"column_reference", "select_clause_element"})
                count = 0

                def _eval(self, context):
                    Rule_ZZ99.count += 1
                    if Rule_ZZ99.count == k:
                        raise ValueError("boom")
                    return None
            rule = Rule_ZZ99(code="ZZ99", description="d")
            rule.logger = NullLogger()
            vs, _, fixes, _ = rule.crawl(tree, dialect=lin.config.get("dialect_obj"), fix=False, templated_file=None,
                                         ignore_mask=None, fname="f.sql", config=lin.config)  # REAL
            unexpected = [v for v in vs if "Unexpected exception" in v.desc()]
            if k:
                c.witness("raised")
            return len(unexpected) == (1 if 0 < k <= n_visits else 0)
        return harness
    return factory


# ---------------------------------------------------------------- every rule on every shape of a construct
# A construct family = a template with named slots; every slot has alternatives, incl. the forms the grammar allows but
# nobody writes (a CASE without WHEN, a one-argument CONVERT, a CTE followed by a bracketed query ...).
NESTED_CASE = ["CASE{s} {w} {e}END".format(s=s, w=w, e=e) for s in ("", " x") for w in ("", "WHEN 1 THEN 'a'", "WHEN a THEN 1 WHEN b THEN 2")
               for e in ("", "ELSE 'z' ")]
FAMILIES = {
    "case": ("SELECT CASE{subject} {whens} {else_}END{alias} FROM t\n", {
        "subject": ["", " x"],
        "whens": ["", "WHEN 1 THEN 'a'", "WHEN a THEN TRUE", "WHEN a IS NULL THEN b", "WHEN 1 THEN 'a' WHEN 2 THEN 'b'"],
        "else_": ["", "ELSE 'c' ", "ELSE FALSE ", "ELSE NULL ", "ELSE a "] + [f"ELSE {n} " for n in NESTED_CASE],
        "alias": ["", " AS c"]}),
    "cast": ("SELECT {c1}, {c2}{c3} FROM t\n", {
        "c1": ["CAST(1 AS int)", "1::int", "CONVERT(int, 1)", "CONVERT(x)", "CAST(x)", "CONVERT(int, 1, 2)", "a"],
        "c2": ["CAST(b AS text)", "b::text", "CONVERT(y)", "CONVERT(text, b)", "CONVERT()", "b::text::int", "CAST(b AS text)::int"],
        "c3": ["", ", CONVERT(z)", ", c::int"]}),
    "cte": ("WITH a AS (SELECT 1){after}{main}\n", {
        "after": [" ", "\n", ", b AS (SELECT 2) ", " -- c\n", ",\nb AS (SELECT 2)\n", " /* c */ "],
        "main": ["SELECT * FROM a", "(SELECT 2)", "INSERT INTO t SELECT * FROM a", "SELECT 1 UNION ALL SELECT 2", "(SELECT 1) UNION (SELECT 2)"]}),
    "select": ("SELECT{mod} {t1}{t2} FROM {tbl}{join}{tail}\n", {
        "mod": ["", " DISTINCT"],
        "t1": ["a", "a AS b", "a b", "*", "t.*", "count(*)", "1", "t.a"],
        "t2": ["", ", b", ", a", ",b AS a"],
        "tbl": ["t", "t AS u", "t u", "(SELECT 1) AS s", "s.t"],
        "join": ["", " JOIN v ON t.a = v.a", " JOIN v USING (a)", ", v", " LEFT JOIN v ON v.a = t.a AND 1 = 1"],
        "tail": ["", " GROUP BY 1", " ORDER BY a DESC, b", " WHERE a IS NULL", " LIMIT 1"]}),
}
OPTION_SETS = {
    "default": {},
    "casting=cast": {"convention.casting_style": {"preferred_type_casting_style": "cast"}},
    "casting=convert": {"convention.casting_style": {"preferred_type_casting_style": "convert"}},
    "casting=shorthand": {"convention.casting_style": {"preferred_type_casting_style": "shorthand"}},
}
_LINTERS = {}


def _linter(dialect, opt):
    if (dialect, opt) not in _LINTERS:
        cfg = FluffConfig(overrides={"dialect": dialect}, configs={"rules": OPTION_SETS[opt]} if OPTION_SETS[opt] else None)
        _LINTERS[(dialect, opt)] = Linter(config=cfg)
    return _LINTERS[(dialect, opt)]


def internal_failures(sql, dialect, opt, fix):
    import logging
    logging.disable(logging.CRITICAL)
    try:
        lf = _linter(dialect, opt).lint_string(sql, fix=fix)
    finally:
        logging.disable(logging.NOTSET)
    return [f"{v.rule_code()}: {v.desc()[:90]}" for v in lf.get_violations() if "Unexpected exception" in v.desc()], \
        any(v.rule_code() == "PRS" for v in lf.get_violations())


def _slots(fam):
    return list(FAMILIES[fam][1])


# references that a dialect parses WITHOUT an identifier child (session variables, positional parameters, ...): rules that
# take "the first part of a reference" must cope with there being none
SPECIAL_REFS = {"mysql": ["@v"], "mariadb": ["@v"], "oracle": ["&1"], "snowflake": ["IDENTIFIER($c)", "$1"], "tsql": ["@v"],
                "postgres": ["$1"], "bigquery": ["@p"], "ansi": []}


def family(fam, cap, dialect="ansi"):
    """Template and slots of a family; `cap` keeps only the first `cap` alternatives of every slot (quick tier / extra dialects).
    The select family puts the dialect's identifier-less references first among the second select target's alternatives and a
    USING join first among the joins."""
    tmpl, slots = FAMILIES[fam]
    slots = dict(slots)
    if fam == "select" and SPECIAL_REFS.get(dialect):
        slots["t2"] = [", " + r for r in SPECIAL_REFS[dialect]] + slots["t2"]
        slots["join"] = [" JOIN v USING (a)", " INNER JOIN v USING (a)"] + [j for j in slots["join"] if "USING" not in j]
        slots["t1"] = ["t.x"] + slots["t1"]
    return tmpl, ({k: v[:cap] for k, v in slots.items()} if cap else slots)


def make_family(fam, dialect, cap=None):
    def factory(excluded=frozenset()):
        def harness(c):
            tmpl, slots = family(fam, cap, dialect)
            vals = {k: choose(c, k, alts) for k, alts in slots.items()}
            sql = tmpl.format(**vals)
            opt = choose(c, "rule_options", list(OPTION_SETS) if fam == "cast" else ["default"])
            fix = bool(choose(c, "fix_mode", [False, True]))
            if any(pat in sql for pat in excluded_patterns(excluded)):
                from symlite.core import Abort
                raise Abort()
            bad, prs = internal_failures(sql, dialect, opt, fix)   # REAL: parse + every rule's crawl/_eval (+ fix loop)
            if not prs:
                c.witness("parsable")
            if fix:
                c.witness("fix_mode")
            return not bad
        return harness
    return factory


def excluded_patterns(excluded):
    return []


def replay_family(fam, dialect, cap=None):
    def rp(cex):
        tmpl, slots = family(fam, cap, dialect)
        vals = {k: alts[int(cex.get(k, 0))] for k, alts in slots.items()}
        sql = tmpl.format(**vals)
        opts = list(OPTION_SETS) if fam == "cast" else ["default"]
        opt = opts[int(cex.get("rule_options", 0))]
        fix = bool([False, True][int(cex.get("fix_mode", 0))])
        bad, _ = internal_failures(sql, dialect, opt, fix)
        return f"{dialect}, rule options {opt}, {'fix' if fix else 'lint'}: {sql!r} -> {bad[:2]}" if bad else None
    return rp


def units(tier, seed):
    m = 4 if tier == "quick" else 6
    return [
        Unit(name=f"c05.lt08_forward_scan[<= {m} following segments]", functions=["sqlfluff.rules.layout.LT08.Rule_LT08._eval"],
             bounds={"segments after the CTE bracket": m, "kinds": KINDS}, make=make_lt08(m), replay=replay_lt08(m),
             stubs=["context.segment -> stub whose iter_segments yields real raw segments of the forked kinds", "config -> 'trailing'"],
             outside=["the other ~70 rules' _eval bodies"], witnesses_required=["violation_reported", "nothing_but_commas_and_noncode_follows"],
             sharded=True, timeout_s=600 if tier == "quick" else 1800),
    ] + [
        Unit(name=f"c05.rules_on_construct[{fam},{dialect}{',first ' + str(cap) + ' alternatives per slot' if cap else ''}]",
             functions=["every bundled rule's _eval via sqlfluff.core.rules.base.BaseRule.crawl", "Linter.lint_string / lint_fix_parsed (lint and fix mode)"],
             bounds={"construct": FAMILIES[fam][0], "slots": {k: len(v) for k, v in family(fam, cap, dialect)[1].items()}, "dialect": dialect,
                     "rule options": list(OPTION_SETS) if fam == "cast" else ["default"], "mode": "lint / fix"},
             make=make_family(fam, dialect, cap), replay=replay_family(fam, dialect, cap),
             stubs=["none: real lexer, parser, rules; the slot alternatives are solver-forked"],
             outside=["constructs and slot values not listed", "dialects not listed"],
             witnesses_required=["parsable", "fix_mode"], sharded=True, timeout_s=900 if tier == "quick" else 3000)
        for fam, dialect, cap in (
            [("case", "ansi", None), ("cast", "ansi", 4), ("cte", "ansi", None), ("select", "ansi", 3), ("select", "mysql", 3)] if tier == "quick" else
            [("case", d, None) for d in ("ansi", "postgres", "tsql", "bigquery", "snowflake")] +
            [("cast", d, None) for d in ("ansi", "postgres", "tsql")] + [("cte", d, None) for d in ("ansi", "postgres", "tsql", "bigquery", "snowflake")] +
            [("select", "ansi", 4), ("select", "postgres", 3), ("select", "tsql", 3), ("select", "mysql", 3), ("select", "oracle", 3),
             ("select", "snowflake", 3), ("select", "bigquery", 3)])
    ] + [
        Unit(name="c05.crawl_exception_funnel", functions=["sqlfluff.core.rules.base.BaseRule.crawl"],
             bounds={"visit at which _eval raises": "none or any"}, make=make_funnel(), replay="concrete",
             witnesses_required=["raised"], sharded=False, timeout_s=120),
    ]
