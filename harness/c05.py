"""C05 No rule fails internally (anchored kernels: LT08 forward scan, BaseRule.crawl exception funnel)."""
from __future__ import annotations

from lib.runner import Unit
from symlite.values import NullLogger, choose, fresh_int

from sqlfluff.core import FluffConfig, Linter
from sqlfluff.core.parser.segments import (CodeSegment, CommentSegment, KeywordSegment, NewlineSegment, SymbolSegment,
                                           WhitespaceSegment)
from sqlfluff.rules.layout.LT08 import Rule_LT08

KNOWN = {}
KINDS = ["comma", "newline", "whitespace", "comment", "code", "cycle_keyword", "bracketed"]
SQL = {"comma": ",", "newline": "\n", "whitespace": " ", "comment": "/* c */", "code": "b AS (SELECT 2)", "cycle_keyword": "CYCLE x SET y USING z",
       "bracketed": "(SELECT 3)"}


def seg(kind):
    if kind == "comma":
        return SymbolSegment(",", instance_types=("comma",))
    if kind == "newline":
        return NewlineSegment("\n")
    if kind == "whitespace":
        return WhitespaceSegment(" ")
    if kind == "comment":
        return CommentSegment("/* c */", instance_types=("block_comment",))
    if kind == "cycle_keyword":
        return KeywordSegment("CYCLE")
    if kind == "bracketed":
        return CodeSegment("(x)", instance_types=("bracketed",))
    return CodeSegment("x")


def make_lt08(max_len):
    def factory(excluded=frozenset()):
        def harness(c):
            n = int(fresh_int(c, "n_following", 0, max_len))
            kinds = [choose(c, f"kind{i}", KINDS) for i in range(n)]
            segs = [seg("bracketed")] + [seg(k) for k in kinds]

            class Stmt:
                pos_marker = None

                def is_type(self, *t):
                    return "with_compound_statement" in t

                def iter_segments(self, expanding=None, pass_through=False):
                    return iter(segs)

            class Cfg:
                def get(self, key, section=None, default=None):
                    return "trailing"

            class Ctx:
                segment = Stmt()
                config = Cfg()
            rule = Rule_LT08(code="LT08", description="d")
            rule.logger = NullLogger()
            res = rule._eval(Ctx())  # REAL: must not raise for any child sequence
            if res:
                c.witness("violation_reported")
            if not kinds or all(k in ("comma", "newline", "whitespace", "comment") for k in kinds):
                c.witness("nothing_but_commas_and_noncode_follows")
            return True
        return harness
    return factory


def replay_lt08(max_len):
    def rp(cex):
        n = int(cex.get("n_following", 0))
        kinds = [KINDS[int(cex.get(f"kind{i}", 0))] for i in range(n)]
        sql = "WITH a AS (SELECT 1)" + "".join(SQL[k] for k in kinds) + "\n"
        hits = []
        for d in ("ansi", "postgres", "tsql", "bigquery"):
            r = Linter(config=FluffConfig(overrides={"dialect": d, "rules": "LT08"})).lint_string(sql)
            hits += [f"{d}: {v.desc()[:80]}" for v in r.violations if "Unexpected exception" in v.desc()]
        if hits:
            return f"{sql!r} -> {hits[0]}"
        # the kernel itself, natively
        from symlite.core import concrete_replay
        return concrete_replay(make_lt08(max_len)(frozenset()), cex)
    return rp


def make_funnel():
    """BaseRule.crawl turns an exception raised by _eval at ANY visited segment into an 'Unexpected exception' violation."""
    def factory(excluded=frozenset()):
        def harness(c):
            from sqlfluff.core.rules.base import BaseRule
            from sqlfluff.core.rules.crawlers import SegmentSeekerCrawler
            lin = Linter(config=FluffConfig(overrides={"dialect": "ansi"}))
            tree = lin.parse_string("SELECT a, b FROM t\n").tree
            n_visits = len(list(tree.recursive_crawl("column_reference", "select_clause_element")))
            k = int(fresh_int(c, "raise_at_visit", 0, n_visits))

            class Rule_ZZ99(BaseRule):
                """Stub."""
                groups = ("all",)
                crawl_behaviour = SegmentSeekerCrawler({"column_reference", "select_clause_element"})
                count = 0

                def _eval(self, context):
                    Rule_ZZ99.count += 1
                    if Rule_ZZ99.count == k:
                        raise ValueError("boom")
                    return None
            rule = Rule_ZZ99(code="ZZ99", description="d")
            rule.logger = NullLogger()
            vs, _, fixes, _ = rule.crawl(tree, dialect=lin.config.get("dialect_obj"), fix=False, templated_file=None,
                                         ignore_mask=None, fname="f.sql", config=lin.config)  # REAL
            unexpected = [v for v in vs if "Unexpected exception" in v.desc()]
            if k:
                c.witness("raised")
            return len(unexpected) == (1 if 0 < k <= n_visits else 0)
        return harness
    return factory


def units(tier, seed):
    m = 4 if tier == "quick" else 6
    return [
        Unit(name=f"c05.lt08_forward_scan[<= {m} following segments]", functions=["sqlfluff.rules.layout.LT08.Rule_LT08._eval"],
             bounds={"segments after the CTE bracket": m, "kinds": KINDS}, make=make_lt08(m), replay=replay_lt08(m),
             stubs=["context.segment -> stub whose iter_segments yields real raw segments of the forked kinds", "config -> 'trailing'"],
             outside=["the other ~70 rules' _eval bodies"], witnesses_required=["violation_reported", "nothing_but_commas_and_noncode_follows"],
             sharded=True, timeout_s=600 if tier == "quick" else 1800),
        Unit(name="c05.crawl_exception_funnel", functions=["sqlfluff.core.rules.base.BaseRule.crawl"],
             bounds={"visit at which _eval raises": "none or any"}, make=make_funnel(), replay="concrete",
             witnesses_required=["raised"], sharded=False, timeout_s=120),
    ]
