"""C06 Parsing is deterministic and unaffected by parser optimisations (pruning hints, prune_options, block tracker history)."""
from __future__ import annotations

import time

import z3

from lib.runner import Outcome, Unit
from symlite.core import Stats
from symlite.values import AbsStr, NullLogger, SymInt, choose, fresh_bool, fresh_int, hash_zero, lift

KNOWN = {}


# ---------------------------------------------------------------- 1. live simple() hints vs FIRST sets (z3 Datalog)

def _token_for(tok, dialect):
    from sqlfluff.core.parser.markers import PositionMarker
    from sqlfluff.core.parser.segments import CodeSegment, KeywordSegment
    from sqlfluff.core.templaters import TemplatedFile
    kind, val = tok
    tf = TemplatedFile.from_string("x")
    pm = PositionMarker(slice(0, 1), slice(0, 1), tf)
    if kind == "raw":
        return CodeSegment(val, pm)
    return CodeSegment("x", pm, instance_types=(val,))


def replay_hint(cex):
    """Real prune_options drops the option although the token is in its FIRST set (per the grammar structure)."""
    from models.grammar_graph import Graph
    from sqlfluff.core.parser.context import ParseContext
    from sqlfluff.core.parser.match_algorithms import prune_options
    g = Graph(cex["dialect"])
    nd = g.nodes[cex["node_id"]]
    if repr(nd.obj)[:120] != cex["node"]:
        return None
    # same history as the model: one parse context in which the hints of all grammar elements were requested in graph order
    # (hints are cached per parse context, so what an element answers can depend on who was asked before it)
    from models.grammar_first import FirstModel
    ctx = FirstModel(g).ctx
    if cex["token"] is None:
        return (f"{cex['dialect']}: {cex['node']} (in {cex['owner']}) advertises a pruning hint {cex['hint']} although one of its "
                f"leading elements has no hint at all (it can start with tokens the hint does not list)")
    tok = _token_for(tuple(cex["token"]), g.dialect)
    kept = prune_options([nd.obj], [tok], parse_context=ctx, start_idx=0)
    if not kept:
        return (f"{cex['dialect']}: prune_options discards {cex['node']} (in {cex['owner']}) for a first token {cex['token']}, "
                f"but the grammar lets it start with that token (parse context in which every element's hint had been requested "
                f"once, in grammar order; hint in force: {cex['hint']})")
    return None


def _chain(g, fm, nid, tok):
    """A head-chain from node to a leaf whose own hint contains tok (for the report)."""
    seen, path, cur = set(), [], nid
    heads = {}
    return "see Datalog facts"


def run_hints(label):
    def run(excluded):
        from models.grammar_first import FirstModel
        from models.grammar_graph import Graph
        st = Stats()
        t0 = time.time()
        g = Graph(label)
        fm = FirstModel(g)
        out, nq, secs = fm.unsound_hints()
        st.paths, st.nontrivial, st.queries, st.solver_s = 1, 1, nq, secs
        sample = {"dialect": label, "nodes": len(g.nodes), "hinted_nodes": len(fm.hints), "head_facts": fm.nfacts, "unsound": len(out)}
        if out:
            nid, tok = out[0]
            nd = g.nodes[nid]
            cex = {"dialect": label, "node_id": nid, "node": repr(nd.obj)[:120], "owner": nd.owner, "token": list(tok) if tok else None,
                   "hint": [sorted(x)[:6] for x in fm.hints[nid]], "chain": "FIRST(node) computed over the element graph", "count": len(out)}
            return Outcome("", "CEX", st, cex=cex, cex_kind="unsound pruning hint", replayed=replay_hint(cex), samples=[sample])
        if not fm.hints:
            return Outcome("", "VACUOUS", st, error="no hinted nodes")
        return Outcome("", "PROVED", st, samples=[sample])
    return run


# ---------------------------------------------------------------- 2. prune_options keeps every option whose hint admits the token

def make_prune(n_opts):
    def factory(excluded=frozenset()):
        def harness(c):
            from sqlfluff.core.parser.context import ParseContext
            from sqlfluff.core.parser.markers import PositionMarker
            from sqlfluff.core.parser.match_algorithms import prune_options
            from sqlfluff.core.parser.segments import CodeSegment, WhitespaceSegment
            from sqlfluff.core.templaters import TemplatedFile
            tf = TemplatedFile.from_string("  x")
            raws = ["FOO", "BAR"]
            types = ["t1", "t2"]
            tok_raw = choose(c, "tok_raw", raws)
            tok_type = choose(c, "tok_type", types)
            lead_ws = int(fresh_int(c, "leading_whitespace", 0, 2))
            toks = [WhitespaceSegment(" ", PositionMarker(slice(i, i + 1), slice(i, i + 1), tf)) for i in range(lead_ws)]
            toks.append(CodeSegment(tok_raw.lower(), PositionMarker(slice(2, 3), slice(2, 3), tf), instance_types=(tok_type,)))

            class Opt:
                def __init__(self, i):
                    kind = choose(c, f"hint{i}", ["none", "raws", "types", "both"])
                    self.h = None
                    if kind != "none":
                        rs = frozenset(r for r in raws if kind in ("raws", "both") and bool(fresh_bool(c, f"h{i}_{r}")))
                        ts = frozenset(t for t in types if kind in ("types", "both") and bool(fresh_bool(c, f"h{i}_{t}")))
                        self.h = (rs, ts)

                def simple(self, parse_context, crumbs=None):
                    return self.h
            opts = [Opt(i) for i in range(n_opts)]
            ctx = ParseContext.__new__(ParseContext)
            kept = prune_options(opts, toks, parse_context=ctx, start_idx=0)  # REAL
            ok = True
            for o in opts:
                admits = o.h is None or tok_raw in o.h[0] or tok_type in o.h[1]
                if (o in kept) != admits:
                    ok = False
            if len(kept) < len(opts):
                c.witness("pruned")
            if kept:
                c.witness("kept")
            return ok and [o for o in opts if o in kept] == kept
        return harness
    return factory


# ---------------------------------------------------------------- 3. lexing file B after an arbitrary file A (BlockTracker state)

def make_history():
    def factory(excluded=frozenset()):
        import sqlfluff.core.parser.lexer as lx
        from harness import c01

        def lex(c, shape, tag):
            tf, n, T = c01.build_file(c, shape) if tag == "sym" else (None, None, None)
            return tf, n, T

        def harness(c):
            from sqlfluff.core.parser.lexer import BlockTracker, LexedElement, PyLexer, _iter_segments
            lx.lexer_logger = NullLogger()
            lx.len = c01.sym_len
            shape_a = choose(c, "file_a_shape", ["L", "LSLEL", "loop2", "LSL"])   # LSL: a block left open
            shape_b = choose(c, "file_b_shape", ["LSLEL", "loop2", "ifelse_first"])

            def run(shape, tag):
                tf, n, T = c01.build_file(c, shape) if shape in c01.SHAPES else _open_block(c)
                ln = fresh_int(c, f"{tag}_el", 1)
                c.assume(lift(ln) == lift(T))
                elems = PyLexer.map_template_slices([LexedElement(AbsStr(ln), c01._code_m)], tf)
                with hash_zero():
                    try:
                        return list(_iter_segments(elems, tf, add_indents=True)), None
                    except IndexError as e:
                        return None, e
            BlockTracker._stack, BlockTracker._map = [], {}
            fresh, ferr = run(shape_b, "b1")
            BlockTracker._stack, BlockTracker._map = [], {}
            run(shape_a, "a")
            after, aerr = run(shape_b, "b2")   # NOT reset: same process, after file A
            if (fresh is None) != (after is None):
                return False
            if fresh is None:
                return True
            c.witness("compared")
            if shape_a == "LSL":
                c.witness("after_open_block")

            def sig(segs):
                ids, out = {}, []
                for s in segs:
                    u = getattr(s, "block_uuid", None)
                    out.append((s.get_type(), getattr(s, "block_type", None), None if u is None else ids.setdefault(u, len(ids))))
                return out
            return sig(fresh) == sig(after)
        return harness
    return factory


def _open_block(c):
    """literal, block_start, literal -- the block is never closed (truncated / unbalanced template)."""
    from harness import c01
    c01.SHAPES.setdefault("LSL", ("LSL", [0, 1, 2]))
    return c01.build_file(c, "LSL")


# ---------------------------------------------------------------- 4. the per-parse-context cache of simple() hints
def _hint_objects():
    """Grammar objects related the way dialects relate them: an original, copies that insert / remove options or change
    terminators (copy.copy shares everything that is not reassigned), and an unrelated grammar."""
    from sqlfluff.core.parser import OneOf, Ref, Sequence
    g1 = OneOf("SELECT", "FROM")
    objs = {
        "original": g1,
        "copy_with_inserted_option": g1.copy(insert=[Ref.keyword("TABLE")]),
        "copy_with_removed_option": g1.copy(remove=[Ref.keyword("FROM")]),
        "copy_with_terminators": g1.copy(terminators=[Ref.keyword("WHERE")]),
        "unrelated": Sequence("OPTIONS", "TABLE"),
    }
    return objs


def _true_hints():
    from sqlfluff.core.dialects import dialect_selector
    from sqlfluff.core.parser.context import ParseContext
    out = {}
    for name in _hint_objects():
        objs = _hint_objects()   # fresh objects, fresh context: nothing cached anywhere can be involved
        out[name] = objs[name].simple(ParseContext(dialect=dialect_selector("ansi"), max_parse_depth=255))
    return out


def make_hint_cache(n_calls):
    def factory(excluded=frozenset()):
        def harness(c):
            from sqlfluff.core.dialects import dialect_selector
            from sqlfluff.core.parser.context import ParseContext
            objs = _hint_objects()
            truth = _true_hints()
            names = list(objs)
            ctxs = [ParseContext(dialect=dialect_selector("ansi"), max_parse_depth=255) for _ in range(2)]
            ok, calls = True, []
            for k in range(n_calls):
                nm = choose(c, f"call{k}_grammar", names)
                cx = int(fresh_int(c, f"call{k}_context", 0, 1))
                got = objs[nm].simple(ctxs[cx])   # REAL (cached_method_for_parse_context)
                calls.append((nm, cx))
                if got != truth[nm]:
                    ok = False
            if len({n for n, _ in calls}) > 1 and len({x for _, x in calls}) == 1:
                c.witness("two_grammars_one_context")
            if any(calls[i] == calls[j] for i in range(len(calls)) for j in range(i)):
                c.witness("cache_hit")
            return ok
        return harness
    return factory


def units(tier, seed):
    from sqlfluff.core.dialects import dialect_readout
    us = []
    for d in dialect_readout():
        us.append(Unit(
            name=f"c06.pruning_hints[{d.label}]",
            functions=[f"live .simple() of every grammar element reachable in dialect {d.label}", "sqlfluff.core.parser.match_algorithms.prune_options (replay)"],
            bounds={"grammar": "complete reachable graph", "tokens": "every raw / type advertised by a leaf parser"},
            run=run_hints(d.label), replay=replay_hint,
            stubs=["z3 Fixedpoint(engine=datalog): First/Unk closure over head-element facts emitted from the live grammar objects"],
            assumptions=["leaf parsers' own hints are correct", "an element that is not is_optional() must match something (Sequence.match semantics)"],
            outside=["equality of whole parse trees with/without pruning on real SQL", "the parse cache key omitting inherited terminators"],
            sharded=False, timeout_s=600))
    for n in ([2] if tier == "quick" else [2, 3]):
        us.append(Unit(
            name=f"c06.prune_options[{n} options]", functions=["sqlfluff.core.parser.match_algorithms.prune_options", "first_non_whitespace"],
            bounds={"options": n, "hints": "None / any subset of 2 raws and/or 2 types", "leading whitespace tokens": "0..2"},
            make=make_prune(n), replay="concrete", witnesses_required=["pruned", "kept"], sharded=True, timeout_s=600))
    nc = 3 if tier == "quick" else 4
    us.append(Unit(
        name=f"c06.simple_hint_cache_history[{nc} calls]",
        functions=["sqlfluff.core.parser.grammar.base.cached_method_for_parse_context", "BaseGrammar.copy / cache_key", "OneOf/Sequence.simple"],
        bounds={"calls": nc, "grammar objects": list(_hint_objects()), "parse contexts": 2},
        make=make_hint_cache(nc), replay="concrete",
        stubs=["none: real grammar objects over the ansi dialect; the reference hint of each object comes from freshly built objects "
               "in a fresh context"],
        outside=["copies of copies", "the longest_match parse cache"],
        witnesses_required=["two_grammars_one_context", "cache_hit"], sharded=True, timeout_s=600))
    us.append(Unit(
        name="c06.block_tracker_history", functions=["sqlfluff.core.parser.lexer.BlockTracker (class-level _stack/_map)", "_iter_segments", "_handle_zero_length_slice"],
        bounds={"file A": "L / LSLEL / loop2 / unclosed block", "file B": "LSLEL / loop2 / if-else", "all lengths": "symbolic"},
        make=make_history(), replay="concrete", witnesses_required=["compared", "after_open_block"], sharded=True, timeout_s=600))
    return us
