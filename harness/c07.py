"""C07 Template source maps are consistent for every templater and variant."""
from harness import tmpl_jinja, tmpl_placeholder, tmpl_python

KNOWN = {"F3": tmpl_python.known_f3, "F5": tmpl_jinja.known_f5, "PY_COLLIDE_SKIP": tmpl_python.known_collide_skip}


def units(tier, seed):
    return (tmpl_placeholder.units_for("C07", tier) + tmpl_python.units_for("C07", tier)
            + tmpl_python.process_units("C07", tier) + tmpl_jinja.units_for("C07", tier) + tmpl_jinja.variant_units("C07", tier))
