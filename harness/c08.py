"""C08 Jinja rendering fidelity (narrow): the marker-free fast path is sound w.r.t. the live Jinja environment."""
from __future__ import annotations

import ast
import inspect
import time

import z3

from lib.runner import Outcome, Unit
from symlite.core import Stats
from symlite.values import NullLogger, RopeStr, fresh_bool

import sqlfluff.core.templaters.jinja as jj
from sqlfluff.core import FluffConfig
from sqlfluff.core.templaters.jinja import JinjaTemplater

KNOWN = {}


def gate_pattern():
    """The re.search literal of the fast path, read from the AST of JinjaTemplater.process as it is in /repo now."""
    src = inspect.getsource(jj)
    tree = ast.parse(src)
    for node in ast.walk(tree):
        if isinstance(node, ast.FunctionDef) and node.name == "process":
            for sub in ast.walk(node):
                if isinstance(sub, ast.Call) and isinstance(sub.func, ast.Attribute) and sub.func.attr == "search" \
                        and getattr(sub.func.value, "id", "") == "re" and isinstance(sub.args[0], ast.Constant):
                    return sub.args[0].value
    raise RuntimeError("fast-path re.search not found")


def newline_pattern():
    import sqlfluff.core.linter.linter as ll
    tree = ast.parse(inspect.getsource(ll))
    for node in ast.walk(tree):
        if isinstance(node, ast.FunctionDef) and node.name == "_normalise_newlines":
            for sub in ast.walk(node):
                if isinstance(sub, ast.Call) and getattr(sub.func, "attr", "") == "sub":
                    return sub.args[0].value, sub.args[1].value
    raise RuntimeError("_normalise_newlines regex not found")


def jinja_render(s, cfg=None):
    """What Jinja itself renders from the template text s with the environment sqlfluff builds."""
    cfg = cfg or FluffConfig(overrides={"dialect": "ansi", "templater": "jinja"})
    t = JinjaTemplater()
    env, ctx, render = t.construct_render_func(fname="f.sql", config=cfg)
    return render(s)


def sqlfluff_render(s):
    from sqlfluff.core import Linter
    cfg = FluffConfig(overrides={"dialect": "ansi", "templater": "jinja"})
    r = Linter(config=cfg).render_string(s, "f.sql", cfg, "utf8")
    return r.templated_variants[0].templated_str if r.templated_variants else None


def replay_gate(cex):
    s = cex["string"]
    try:
        a = sqlfluff_render(s)
    except Exception as e:
        a = f"<raises {type(e).__name__}>"
    try:
        b = jinja_render(jj_normalise(s))
    except Exception as e:
        b = f"<raises {type(e).__name__}: {str(e)[:60]}>"
    return None if a == b else f"template {s!r}: sqlfluff lints {a!r} but Jinja renders {b!r}"


def jj_normalise(s):
    from sqlfluff.core.linter.linter import Linter
    return Linter._normalise_newlines(s)


def run_gate(excluded):
    from models.regex2z3 import any_string, to_re
    st = Stats()
    t0 = time.time()
    samples = []
    cfg = FluffConfig(overrides={"dialect": "ansi", "templater": "jinja"})
    env = JinjaTemplater()._get_jinja_env(cfg)
    G, _ = to_re(gate_pattern())
    s = z3.String("s")
    starts = [env.block_start_string, env.variable_start_string, env.comment_start_string]
    for extra in (env.line_statement_prefix, env.line_comment_prefix):
        if extra:
            starts.append(extra)
    # Q1: a string without a gate match contains no live begin-delimiter
    for d in starts:
        sol = z3.Solver()
        sol.set("timeout", 30000)
        sol.add(z3.Not(z3.InRe(s, z3.Concat(any_string(), G, any_string()))), z3.Contains(s, z3.StringVal(d)))
        r = sol.check()
        st.queries += 1
        st.paths += 1
        st.nontrivial += 1
        samples.append({"query": f"no gate match but contains {d!r}", "verdict": str(r)})
        if r == z3.sat:
            cand = sol.model()[s].as_string() + "\n"
            st.solver_s = time.time() - t0
            return Outcome("", "CEX", st, cex={"string": cand}, cex_kind="fast path gate", replayed=replay_gate({"string": cand}) or
                           f"marker-free by the gate but contains Jinja delimiter {d!r}: {cand!r}", samples=samples)
        if r != z3.unsat:
            st.unknown += 1
    # Q2: newline normalisation leaves no carriage return (Jinja would rewrite it): every string starting with \r has a
    # non-empty prefix matched by the normalisation pattern, and the replacement contains no \r
    pat, repl = newline_pattern()
    N, _ = to_re(pat)
    sol = z3.Solver()
    sol.add(z3.PrefixOf(z3.StringVal("\r"), s), z3.Not(z3.InRe(s, z3.Concat(N, any_string()))))
    r = sol.check()
    st.queries += 1
    st.paths += 1
    st.nontrivial += 1
    samples.append({"query": "string starting with CR not matched by the newline pattern", "verdict": str(r)})
    if r == z3.sat or "\r" in repl:
        cand = (sol.model()[s].as_string() if r == z3.sat else "a\r\nb") + "x\n"
        st.solver_s = time.time() - t0
        return Outcome("", "CEX", st, cex={"string": cand}, cex_kind="newline gate", replayed=replay_gate({"string": cand}),
                       samples=samples)
    # facts about the live environment the fast-path argument rests on
    facts = {"keep_trailing_newline": env.keep_trailing_newline, "newline_sequence": env.newline_sequence,
             "line_statement_prefix": env.line_statement_prefix, "line_comment_prefix": env.line_comment_prefix}
    if not (env.keep_trailing_newline and env.newline_sequence == "\n"):
        cand = "select 1\n"
        return Outcome("", "CEX", st, cex={"string": cand, "env": facts}, cex_kind="environment", replayed=replay_gate({"string": cand}),
                       samples=samples)
    st.solver_s = time.time() - t0
    return Outcome("", "PROVED" if not st.unknown else "INCOMPLETE", st, samples=samples, extra={"live_env": facts, "gate": gate_pattern()})


# ---------------------------------------------------------------- the fast-path condition itself (E1)

class _Slow(Exception):
    pass


def make_fastpath():
    def factory(excluded=frozenset()):
        def harness(c):
            flags = {k: bool(fresh_bool(c, k)) for k in ("nonempty", "marker", "macros_path", "macros", "library_path", "library_section")}

            class Cfg:
                def get_section(self, key):
                    k = key[-1] if isinstance(key, tuple) else key
                    if k == "load_macros_from_path":
                        return "p" if flags["macros_path"] else None
                    if k == "macros":
                        return {"m": "x"} if flags["macros"] else None
                    if k == "library_path":
                        return "lib" if flags["library_section"] else None
                    return None

                def get(self, key, section="core", default=None):
                    if key == "library_path":
                        return "lib" if flags["library_path"] else None
                    if key == "ignore":
                        return []
                    return default

                def __bool__(self):
                    return True

            class Re:
                @staticmethod
                def search(pat, s):
                    return object() if flags["marker"] else None
            t = JinjaTemplater()

            def slow(*a, **k):
                raise _Slow()
            t.construct_render_func = slow
            real_re = jj.re
            jj.re = Re
            try:
                text = "select 1\n" if flags["nonempty"] else ""
                try:
                    tf, errs = t.process(in_str=text, fname="f", config=Cfg())
                    fast = True
                    ok = tf.templated_str == text and tf.source_str == text and errs == []
                except _Slow:
                    fast, ok = False, True
            finally:
                jj.re = real_re
            expected_fast = flags["nonempty"] and not any(flags[k] for k in ("marker", "macros_path", "macros", "library_path", "library_section"))
            if fast:
                c.witness("fast")
            else:
                c.witness("slow")
            return ok and fast == expected_fast
        return harness
    return factory


# ---------------------------------------------------------------- slow path: primary rendering == plain Jinja render
BLOCKS = ["a ", "\n", "{{ x }}", "{{ y }}", "{{- x }} ", " {{ x -}} ", "{% if x %}b{% endif %}", "{% if y %}c{% else %}d{% endif %}",
          "{% for i in y %}{{ i }},{% endfor %}", "{# k #}", "{% set z = x %}", "{{ z }}", "{{ u }}", "{% if x is defined %}e{% endif %}"]
XS = ["<absent>", 0, 1, "", "v", False]
YS = ["<absent>", [], [1, 2], "w"]


def plain_jinja(src, ctx):
    """Jinja itself, configured like sqlfluff's environment but with none of sqlfluff's context manipulation."""
    import jinja2
    from jinja2.sandbox import SandboxedEnvironment
    env = SandboxedEnvironment(keep_trailing_newline=True, extensions=["jinja2.ext.do"])
    return env.from_string(src).render(**ctx)


class RefStandIn:
    """Independent model of what sqlfluff documents for an undefined variable: renders as nothing, any attribute / item /
    call gives another stand-in, iterating gives one stand-in. (It is therefore truthy and 'defined': known finding F25.)"""

    def __str__(self):
        return ""

    def __getattr__(self, k):
        if k.startswith("__"):
            raise AttributeError(k)
        return RefStandIn()

    def __getitem__(self, k):
        return RefStandIn()

    def __call__(self, *a, **k):
        return RefStandIn()

    def __iter__(self):
        yield RefStandIn()


def undefined_names(src, ctx):
    import jinja2
    from jinja2 import meta
    env = jinja2.Environment(extensions=["jinja2.ext.do"])
    return sorted(meta.find_undeclared_variables(env.parse(src)) - set(ctx))


def reference(src, ctx, excluded):
    und = undefined_names(src, ctx)
    if und and "F25" in excluded:
        return plain_jinja(src, {**ctx, **{k: RefStandIn() for k in und}})
    return plain_jinja(src, ctx)


def known_f25(entry):
    src, ctx = entry["replay"]["source"], entry["replay"].get("context", {})
    got, errs = primary_render(src, ctx)
    exp = plain_jinja(src, ctx)
    return None if got == exp else f"template {src!r} with context {ctx}: sqlfluff lints {got!r} (templating errors reported: {len(errs)}) but Jinja renders {exp!r}"


KNOWN = {"F25": known_f25}


def primary_render(src, ctx):
    t = JinjaTemplater(override_context=dict(ctx))
    tf, errs = t.process(in_str=src, fname="f.sql", config=FluffConfig(overrides={"dialect": "ansi", "templater": "jinja"}))
    return (tf.templated_str if tf is not None else None), errs


def _active_known():
    """The known findings of C08 that are listed AND still reproduce (same rule as lib.main applies before the search)."""
    from lib import runner
    act = set()
    for k in runner.load_known("C08"):
        if k.get("status") == "known" and k["id"] in KNOWN:
            try:
                if KNOWN[k["id"]](k):
                    act.update(k.get("patterns", [k["id"]]))
            except Exception:
                pass
    return frozenset(act)


def make_render(n_blocks):
    def factory(excluded=frozenset()):
        def harness(c):
            from symlite.values import choose, fresh_int
            from symlite.core import Abort
            n = int(fresh_int(c, "n_blocks", 1, n_blocks))
            src = "".join(choose(c, f"block{i}", BLOCKS) for i in range(n))
            x, y = choose(c, "x_value", XS), choose(c, "y_value", YS)
            ctx = {k: v for k, v in (("x", x), ("y", y)) if not (isinstance(v, str) and v == "<absent>")}
            try:
                exp = reference(src, ctx, excluded)
            except Exception:
                raise Abort()   # Jinja itself rejects template+context: outside the property
            got, errs = primary_render(src, ctx)   # REAL
            if "x" in ctx and not ctx["x"]:
                c.witness("falsy_defined_variable")
            if "{{ u }}" in src or "x" not in ctx:
                c.witness("undefined_variable")
            if "{%" in src:
                c.witness("block_tags")
            return got == exp
        return harness
    return factory


def replay_render(cex, excluded=frozenset()):
    n = int(cex.get("n_blocks", 1))
    src = "".join(BLOCKS[int(cex.get(f"block{i}", 0))] for i in range(n))
    x, y = XS[int(cex.get("x_value", 0))], YS[int(cex.get("y_value", 0))]
    ctx = {k: v for k, v in (("x", x), ("y", y)) if not (isinstance(v, str) and v == "<absent>")}
    try:
        exp = reference(src, ctx, _active_known())
    except Exception:
        return None
    try:
        got, errs = primary_render(src, ctx)
    except Exception as e:
        return f"template {src!r} with context {ctx}: Jinja renders {exp!r}, the jinja templater raises {type(e).__name__}: {str(e)[:100]}"
    return None if got == exp else f"template {src!r} with context {ctx}: sqlfluff lints {got!r} but Jinja renders {exp!r}"


def units(tier, seed):
    nb = 2 if tier == "quick" else 3
    return [
        Unit(name=f"c08.render_vs_jinja[<= {nb} blocks]",
             functions=["sqlfluff.core.templaters.jinja.JinjaTemplater.process/construct_render_func/_init_undefined_tracking/get_context",
                        "sqlfluff.core.templaters.slicers.tracer.JinjaAnalyzer.analyze / JinjaTracer.trace (final render)"],
             bounds={"template": f"every concatenation of <= {nb} blocks from {BLOCKS}", "x": [str(v) for v in XS], "y": [str(v) for v in YS]},
             make=make_render(nb), replay=replay_render,
             stubs=["none: real templater; reference = a plain jinja2 SandboxedEnvironment(keep_trailing_newline, ext.do) render of "
                    "the same text with the same context; template and context are solver-forked"],
             assumptions=["template+context pairs that Jinja itself cannot render are outside",
                          "while known finding F25 is listed, templates that reference an undefined variable are compared with Jinja "
                          "rendering the same text with the documented stand-in object (renders as nothing, iterates once) instead"],
             outside=["macros/libraries/dbt builtins", "templates outside this block alphabet"],
             witnesses_required=["falsy_defined_variable", "undefined_variable", "block_tags"], sharded=True,
             timeout_s=600 if tier == "quick" else 3000),
        Unit(name="c08.fastpath_gate",
             functions=["sqlfluff.core.templaters.jinja.JinjaTemplater.process (fast-path re.search literal, read from the AST)",
                        "JinjaTemplater._get_jinja_env (live Environment delimiters)", "Linter._normalise_newlines (regex from the AST)"],
             bounds={"strings": "unbounded length"}, run=run_gate, replay=replay_gate,
             stubs=["regex -> z3 Re; live Environment attributes are read, not modelled"],
             outside=["Jinja's own rendering semantics", "that trace() returns render_func(raw_str) unmodified"],
             sharded=False, timeout_s=120),
        Unit(name="c08.fastpath_condition",
             functions=["sqlfluff.core.templaters.jinja.JinjaTemplater.process", "JinjaTemplater._get_macros_path"],
             bounds={"presence flags": "6 symbolic Booleans (all 64 combinations)"},
             make=make_fastpath(), replay="concrete",
             stubs=["config object -> presence flags", "re.search -> symbolic marker flag", "construct_render_func -> raises marker"],
             witnesses_required=["fast", "slow"], sharded=False, timeout_s=120),
    ]
