"""C09 Python-format and placeholder templaters render faithfully."""
from __future__ import annotations

import ast
import inspect
import time

import z3

from harness import tmpl_placeholder, tmpl_python
from lib.runner import Outcome, Unit
from symlite.core import Stats


def hack_pattern():
    """The dot-notation re.sub pattern, read from the AST of the module as it is in /repo now."""
    import sqlfluff.core.templaters.python as py
    tree = ast.parse(inspect.getsource(py))
    for node in ast.walk(tree):
        if isinstance(node, ast.Call) and isinstance(node.func, ast.Attribute) and node.func.attr == "sub" \
                and getattr(node.func.value, "id", "") == "re" and len(node.args) >= 2 \
                and isinstance(node.args[1], ast.Constant) and "sqlfluff[" in str(node.args[1].value):
            return node.args[0].value, node.args[1].value
    raise RuntimeError("dot-notation re.sub call not found in python.py")


CTX = {"a": "A", "ab": 7, "sqlfluff": {"a.b": "DOTTED", "a.b.c": "DEEP"}}


def real_render(s):
    from sqlfluff.core.templaters.python import PythonTemplater
    tf, _ = PythonTemplater(override_context=CTX).process(in_str=s, fname="f.sql")
    return tf.templated_str


def expected_render(s):
    """Reference: str.format with dotted names looked up in the `sqlfluff` mapping (fields parsed by string.Formatter)."""
    import string
    out = ""
    for lit, field, spec, conv in string.Formatter().parse(s):
        out += lit
        if field is None:
            continue
        val = CTX["sqlfluff"][field] if "." in field else CTX[field]
        if conv:
            val = {"r": repr, "s": str, "a": ascii}[conv](val)
        out += format(val, spec)
    return out


def compare(s):
    """description iff the python templater disagrees with the reference on the valid format string s."""
    try:
        exp = expected_render(s)
    except Exception:
        return None  # not a valid format string for this context: outside the property
    try:
        got = real_render(s)
    except Exception as e:
        return f"format string {s!r}: str.format semantics give {exp!r} but the python templater raises {type(e).__name__}: {str(e)[:120]}"
    return None if got == exp else f"format string {s!r}: python templater renders {got!r}, str.format semantics give {exp!r}"


def _re_union(*xs):
    return z3.Union(*xs) if len(xs) > 1 else xs[0]


def run_dot_hack(excluded):
    from models.regex2z3 import any_string, to_re
    st = Stats()
    pat, repl = hack_pattern()
    M, approx = to_re(pat)
    ch = lambda cs: _re_union(*[z3.Re(z3.StringVal(x)) for x in cs])  # noqa: E731
    plain = ch("ab .:x")                       # literal characters that need no escaping
    name = z3.Re(z3.StringVal("a"))            # context: a -> "A" (a str, so fill/align/width/precision specs are valid)
    dotted = _re_union(z3.Re(z3.StringVal("a.b")), z3.Re(z3.StringVal("a.b.c")))
    # format spec for a str value: [[fill]align][width][.precision]
    spec = z3.Concat(z3.Option(z3.Concat(z3.Option(ch("x ")), ch("<>^"))), z3.Option(ch("359")),
                     z3.Option(z3.Concat(z3.Re(z3.StringVal(".")), ch("23"))))
    conv = z3.Option(z3.Concat(z3.Re(z3.StringVal("!")), ch("rs")))
    fld = lambda nm, cv: z3.Concat(z3.Re(z3.StringVal("{")), nm, cv, z3.Option(z3.Concat(z3.Re(z3.StringVal(":")), spec)), z3.Re(z3.StringVal("}")))  # noqa: E731
    esc = _re_union(z3.Re(z3.StringVal("{{")), z3.Re(z3.StringVal("}}")))
    samples, t0 = [], time.time()
    s = z3.String("s")
    blocked = []
    # Q1: a valid format string with NO dotted field must not be touched by the hack
    for label, with_esc in (("no_escapes", False), ("with_escapes", True)):
        if with_esc and "F4" in excluded:
            continue  # known finding F4: the hack rewrites text inside escaped braces ({{.}})
        parts = [plain, fld(name, conv)] + ([esc] if with_esc else [])
        V0 = z3.Star(_re_union(*parts))
        for attempt in range(25):
            sol = z3.Solver()
            sol.set("timeout", 30000)
            sol.add(z3.InRe(s, V0), z3.InRe(s, z3.Concat(any_string(), M, any_string())), z3.Length(s) <= 8)
            for b in blocked:
                sol.add(s != z3.StringVal(b))
            r = sol.check()
            st.queries += 1
            st.paths += 1
            st.nontrivial += 1
            if r == z3.unknown:
                st.unknown += 1
                break
            if r == z3.unsat:
                samples.append({"query": f"Q1[{label}]", "verdict": "unsat", "pattern": pat})
                break
            cand = sol.model()[s].as_string()
            d = compare(cand)
            if d:
                st.solver_s = time.time() - t0
                return Outcome("", "CEX", st, cex={"format_string": cand, "query": f"Q1[{label}]"}, cex_kind="dot hack",
                               replayed=d, samples=samples)
            blocked.append(cand)  # the rewrite happens to be harmless on this string: ask for another
        else:
            st.unknown += 1  # budget exhausted without an unsat verdict: inconclusive, never a pass
    # Q2: every dotted field (without conversion) is matched as a whole by the hack
    F = fld(dotted, z3.Re(z3.StringVal("")))
    for attempt in range(25):
        sol = z3.Solver()
        sol.set("timeout", 30000)
        sol.add(z3.InRe(s, F), z3.Not(z3.InRe(s, M)), z3.Length(s) <= 12)
        for b in blocked:
            sol.add(s != z3.StringVal(b))
        r = sol.check()
        st.queries += 1
        st.paths += 1
        st.nontrivial += 1
        if r == z3.unknown:
            st.unknown += 1
            break
        if r == z3.unsat:
            samples.append({"query": "Q2", "verdict": "unsat"})
            break
        cand = sol.model()[s].as_string()
        d = compare(cand)
        if d:
            st.solver_s = time.time() - t0
            return Outcome("", "CEX", st, cex={"format_string": cand, "query": "Q2"}, cex_kind="dot hack", replayed=d, samples=samples)
        blocked.append(cand)
    else:
        st.unknown += 1
    st.solver_s = time.time() - t0
    return Outcome("", "PROVED" if not st.unknown else "INCOMPLETE", st, samples=samples,
                   extra={"regex_approximations": approx, "harmless_rewrites_blocked": blocked})


def replay_dot_hack(cex):
    return compare(cex["format_string"])


def known_f4(entry):
    return compare(entry["replay"]["source"])


KNOWN = {"F3": tmpl_python.known_f3, "F4": known_f4, "PY_COLLIDE_SKIP": tmpl_python.known_collide_skip}


def units(tier, seed):
    return tmpl_placeholder.units_for("C09", tier) + tmpl_python.units_for("C09", tier) + tmpl_python.process_units("C09", tier) + [Unit(
        name="c09.python_dot_notation_hack",
        functions=["sqlfluff.core.templaters.python.PythonTemplater.process.render_func (re.sub pattern read from the AST)"],
        bounds={"format strings": "over {a,b,space,.,:,x,{,},!,r,s,>,3}, length <= 8 (Q1) / <= 10 (Q2)"},
        run=run_dot_hack, replay=replay_dot_hack,
        stubs=["format-string grammar and the re.sub pattern as z3 regular expressions; every model is replayed against the real "
               "templater vs string.Formatter-based reference; harmless rewrites are blocked and the query repeated"],
        outside=["format_spec mini-language", "conversions on dotted names"], sharded=False, timeout_s=300)]
