"""C10 Fixes never edit template code (patch-pipeline kernel)."""
from harness.patch_pipeline import pipeline_units

KNOWN = {}


def units(tier, seed):
    if tier == "quick":
        cfg = [("LTL", 2, 1), ("TL", 2, 1), ("LSLEL", 2, 1), ("LCL", 2, 1), ("LT", 1, 2)]
        t = 150
    else:
        cfg = [("LTL", 3, 1), ("LSLEL", 3, 1), ("LCL", 3, 1), ("LTL", 2, 2), ("LSLMLEL", 2, 1), ("TLT", 3, 1),
               ("LSTEL", 2, 2)]
        t = 1500
    return pipeline_units("C10", cfg, t)


# ---------------------------------------------------------------- templated -> source slice mapping used by every fix

def make_t2s(shape):
    import z3
    from harness import c01
    from symlite.values import fresh_int, hash_zero, lift, sym_len, sym_max, sym_min
    import sqlfluff.core.templaters.base as tb

    def factory(excluded=frozenset()):
        tb.len = sym_len
        tb.min, tb.max = sym_min, sym_max

        def harness(c):
            tf, n, T = c01.build_file(c, shape)
            a = fresh_int(c, "tpl_start", 0)
            b = fresh_int(c, "tpl_stop")
            c.assume(z3.And(a.e <= b.e, b.e <= lift(T)))
            try:
                out = tf.templated_slice_to_source_slice(slice(a, b))  # REAL
            except ValueError:
                # documented: a zero-length slice strictly inside a non-literal slice cannot be mapped
                c.witness("declared_value_error")
                inside_nonliteral = z3.Or(*[z3.And(lift(s.templated_slice.start) < a.e, a.e < lift(s.templated_slice.stop))
                                            for s in tf.sliced_file if s.slice_type != "literal"] or [z3.BoolVal(False)])
                return z3.And(a.e == b.e, inside_nonliteral)
            ok = z3.And(lift(out.start) >= 0, lift(out.start) <= lift(out.stop), lift(out.stop) <= lift(n))
            for s in tf.sliced_file:
                if s.slice_type == "literal":
                    ts, te = lift(s.templated_slice.start), lift(s.templated_slice.stop)
                    strictly_inside = z3.And(ts < a.e, b.e < te)
                    off = lift(s.source_slice.start) - ts
                    ok = z3.And(ok, z3.Implies(strictly_inside, z3.And(lift(out.start) == a.e + off, lift(out.stop) == b.e + off)))
            c.witness("mapped")
            return ok
        return harness
    return factory


_orig_units = units


def units(tier, seed):  # noqa: F811
    from lib.runner import Unit
    us = _orig_units(tier, seed)
    shapes = ["L", "LTL", "LSLEL", "LCL", "loop2", "ifelse_first"] if tier == "quick" else \
        ["L", "LTL", "TL", "LT", "LSLEL", "LCL", "LZL", "loop2", "ifelse_first", "ifelse_second", "LTLTL", "loop_if", "LTTL"]
    for sh in shapes:
        us.append(Unit(
            name=f"c10.templated_slice_to_source_slice[{sh}]",
            functions=["sqlfluff.core.templaters.base.TemplatedFile.templated_slice_to_source_slice", "TemplatedFile._find_slice_indices_of_templated_pos"],
            bounds={"slice shape": sh, "all lengths and the queried templated slice": "unbounded"},
            make=make_t2s(sh), replay="concrete",
            stubs=["texts opaque (AbsStr)", "base.len/min/max -> symbolic versions"],
            assumptions=["the TemplatedFile satisfies the C07 tiling invariant"],
            witnesses_required=["mapped"], sharded=True, timeout_s=300 if tier == "quick" else 1200))
    return us


# ---------------------------------------------------------------- whole fix run: every tag of the source survives, in order
T_LEAD = ["", "  ", "\n  ", "\t"]
T_OPEN = ["{% if true %}", "{%- if true %}", "{%- if true -%}", "{% if true -%}"]
T_BODY = ["SELECT 1", "\nSELECT  a,b\n", "  select a from t  "]
T_EXPR = ["", " {{ 'x' }}", "{{- '' }}", "{#- note -#}"]
T_CLOSE = ["{% endif %}", "{%- endif %}", "{% endif -%}", "{%- endif -%}"]
T_TAIL = ["\n", "  \n", "", "\n\n"]
_TAG = r"\{%.*?%\}|\{\{.*?\}\}|\{#.*?#\}"
_LIN = []


def tags_case(parts):
    import logging
    import re
    from sqlfluff.core import FluffConfig, Linter
    if not _LIN:
        _LIN.append(Linter(config=FluffConfig(overrides={"dialect": "ansi", "exclude_rules": "JJ01"})))
    src = "".join(parts)
    logging.disable(logging.CRITICAL)
    try:
        lf = _LIN[0].lint_string(src, fix=True)     # REAL: templater, lexer, parser, every rule but JJ01, fix loop, patching
        out = lf.fix_string()[0] if lf.tree is not None and lf.templated_file is not None else src
    finally:
        logging.disable(logging.NOTSET)
    a, b = re.findall(_TAG, src, re.S), re.findall(_TAG, out, re.S)
    return (None if a == b else f"source {src!r} fixed to {out!r}: template tags {a} became {b}"), out != src


def _dims(tier):
    q = tier == "quick"
    return (("lead", T_LEAD), ("open", T_OPEN), ("body", T_BODY[:2] if q else T_BODY), ("expr", T_EXPR), ("close", T_CLOSE),
            ("tail", T_TAIL[:3] if q else T_TAIL))


def make_tags(tier="thorough"):
    def factory(excluded=frozenset()):
        def harness(c):
            from symlite.values import choose
            parts = [choose(c, n, alts) for n, alts in _dims(tier)]
            problem, changed = tags_case(parts)
            if changed:
                c.witness("file_fixed")
            if parts[0] and parts[1].startswith("{%-"):
                c.witness("leading_whitespace_consumed_by_tag")
            return problem is None
        return harness
    return factory


def replay_tags(cex):
    parts = [alts[int(cex.get(n, 0))] for n, alts in _dims("thorough")]
    return tags_case(parts)[0]


_units_pipeline_c10 = units


def units(tier, seed):  # noqa: F811
    from lib.runner import Unit
    return _units_pipeline_c10(tier, seed) + [Unit(
        name="c10.tags_survive_fix", functions=["Linter.lint_string(fix=True) / lint_fix_parsed", "sqlfluff.utils.reflow (reindent, respace: SourceFix producers)",
                                                "generate_source_patches", "LintedFile.fix_string", "JinjaTemplater.process"],
        bounds={"template": "lead + open tag + body + expression/comment + close tag + tail", "lead": T_LEAD, "open": T_OPEN, "body": T_BODY,
                "expr": T_EXPR, "close": T_CLOSE, "tail": T_TAIL, "rules": "all but JJ01 (the stated exception)"},
        make=make_tags(tier), replay=replay_tags,
        stubs=["none: real jinja templater, parser, rules and patching; the template parts are solver-forked"],
        outside=["templates outside this family", "other dialects"],
        witnesses_required=["file_fixed", "leading_whitespace_consumed_by_tag"], sharded=True, timeout_s=900 if tier == "quick" else 2400)]
