"""C10 Fixes never edit template code (patch-pipeline kernel)."""
from harness.patch_pipeline import pipeline_units

KNOWN = {}


def units(tier, seed):
    if tier == "quick":
        cfg = [("LTL", 2, 1), ("TL", 2, 1), ("LSLEL", 2, 1), ("LCL", 2, 1), ("LT", 1, 2)]
        t = 150
    else:
        cfg = [("LTL", 3, 1), ("LSLEL", 3, 1), ("LCL", 3, 1), ("LTL", 2, 2), ("LSLMLEL", 2, 1), ("TLT", 3, 1),
               ("LSTEL", 2, 2)]
        t = 1500
    return pipeline_units("C10", cfg, t)


# ---------------------------------------------------------------- templated -> source slice mapping used by every fix

def make_t2s(shape):
    import z3
    from harness import c01
    from symlite.values import fresh_int, hash_zero, lift, sym_len, sym_max, sym_min
    import sqlfluff.core.templaters.base as tb

    def factory(excluded=frozenset()):
        tb.len = sym_len
        tb.min, tb.max = sym_min, sym_max

        def harness(c):
            tf, n, T = c01.build_file(c, shape)
            a = fresh_int(c, "tpl_start", 0)
            b = fresh_int(c, "tpl_stop")
            c.assume(z3.And(a.e <= b.e, b.e <= lift(T)))
            try:
                out = tf.templated_slice_to_source_slice(slice(a, b))  # REAL
            except ValueError:
                # documented: a zero-length slice strictly inside a non-literal slice cannot be mapped
                c.witness("declared_value_error")
                inside_nonliteral = z3.Or(*[z3.And(lift(s.templated_slice.start) < a.e, a.e < lift(s.templated_slice.stop))
                                            for s in tf.sliced_file if s.slice_type != "literal"] or [z3.BoolVal(False)])
                return z3.And(a.e == b.e, inside_nonliteral)
            ok = z3.And(lift(out.start) >= 0, lift(out.start) <= lift(out.stop), lift(out.stop) <= lift(n))
            for s in tf.sliced_file:
                if s.slice_type == "literal":
                    ts, te = lift(s.templated_slice.start), lift(s.templated_slice.stop)
                    strictly_inside = z3.And(ts < a.e, b.e < te)
                    off = lift(s.source_slice.start) - ts
                    ok = z3.And(ok, z3.Implies(strictly_inside, z3.And(lift(out.start) == a.e + off, lift(out.stop) == b.e + off)))
            c.witness("mapped")
            return ok
        return harness
    return factory


_orig_units = units


def units(tier, seed):  # noqa: F811
    from lib.runner import Unit
    us = _orig_units(tier, seed)
    shapes = ["L", "LTL", "LSLEL", "LCL", "loop2", "ifelse_first"] if tier == "quick" else \
        ["L", "LTL", "TL", "LT", "LSLEL", "LCL", "LZL", "loop2", "ifelse_first", "ifelse_second", "LTLTL", "loop_if", "LTTL"]
    for sh in shapes:
        us.append(Unit(
            name=f"c10.templated_slice_to_source_slice[{sh}]",
            functions=["sqlfluff.core.templaters.base.TemplatedFile.templated_slice_to_source_slice", "TemplatedFile._find_slice_indices_of_templated_pos"],
            bounds={"slice shape": sh, "all lengths and the queried templated slice": "unbounded"},
            make=make_t2s(sh), replay="concrete",
            stubs=["texts opaque (AbsStr)", "base.len/min/max -> symbolic versions"],
            assumptions=["the TemplatedFile satisfies the C07 tiling invariant"],
            witnesses_required=["mapped"], sharded=True, timeout_s=300 if tier == "quick" else 1200))
    return us
