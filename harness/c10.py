"""C10 Fixes never edit template code (patch-pipeline kernel)."""
from harness.patch_pipeline import pipeline_units

KNOWN = {}


def units(tier, seed):
    if tier == "quick":
        cfg = [("LTL", 2, 1), ("TL", 2, 1), ("LSLEL", 2, 1), ("LCL", 2, 1), ("LT", 1, 2)]
        t = 150
    else:
        cfg = [("LTL", 3, 1), ("LSLEL", 3, 1), ("LCL", 3, 1), ("LTL", 2, 2), ("LSLMLEL", 2, 1), ("TLT", 3, 1),
               ("LSTEL", 2, 2)]
        t = 1500
    return pipeline_units("C10", cfg, t)
