"""C11 Fixing preserves all untouched text byte-for-byte (patch-pipeline kernel)."""
from harness.patch_pipeline import pipeline_units

KNOWN = {}


def units(tier, seed):
    if tier == "quick":
        cfg = [("L", 2, 1), ("LTL", 2, 1), ("LSLEL", 1, 2), ("LCL", 2, 1)]
        t = 150
    else:
        cfg = [("L", 3, 1), ("LTL", 3, 1), ("LSLEL", 3, 1), ("LCL", 3, 1), ("LTL", 2, 2), ("L", 2, 2)]
        t = 1500
    return pipeline_units("C11", cfg, t)


# ---------------------------------------------------------------- encoding detection must be able to decode the WHOLE file

def make_encoding():
    import z3
    from symlite.values import SymInt, fresh_int, lift
    import sqlfluff.core.helpers.file as fmod

    class ByteText:
        """File content abstracted to: n bytes, all ASCII except (if p < n) a non-ASCII byte at offset p. No BOM."""

        def __init__(self, n, p):
            self.n, self.p = n, p

        def startswith(self, prefixes):
            return False

        def __iter__(self):
            # one representative per run is enough for per-byte predicates such as `char < 128`
            if bool(self.p > 0) and bool(self.n > 0):
                yield 65
            if bool(self.p < self.n):
                yield 233

        def prefix(self, k):
            m = SymInt(z3.If(lift(k) < lift(self.n), lift(k), lift(self.n)))
            return ByteText(m, self.p)

    def factory(excluded=frozenset()):
        def harness(c):
            n = fresh_int(c, "file_bytes", 0)
            p = fresh_int(c, "first_non_ascii_offset", 0)
            c.assume(p.e <= n.e)
            whole = ByteText(n, p)

            class F:
                def __enter__(self):
                    return self

                def __exit__(self, *a):
                    return False

                def read(self, k=None):
                    return whole if k is None or (isinstance(k, int) and k < 0) else whole.prefix(k)
            seen = {}

            def detect(data):
                seen["data"] = data
                return {"encoding": "utf-8"}
            real_open = getattr(fmod, "open", None)
            real_detect = fmod.chardet.detect
            fmod.open = lambda fname, mode="r", *a, **k: F()
            fmod.chardet = type("C", (), {"detect": staticmethod(detect)})
            try:
                enc = fmod.get_encoding("f.sql", "autodetect")  # REAL
            finally:
                import chardet as real_chardet
                fmod.chardet = real_chardet
                if real_open is None:
                    del fmod.open
            has_non_ascii = p.e < n.e
            if enc == "ascii":
                c.witness("ascii")
                return z3.Not(has_non_ascii)          # 'ascii' only if EVERY byte of the file is ASCII
            c.witness("detected")
            # the detector must have been shown the non-ASCII byte (i.e. the whole file up to it)
            d = seen.get("data")
            return z3.BoolVal(d is not None) if d is None else z3.And(has_non_ascii, lift(d.n) > p.e)
        return harness
    return factory


def replay_encoding(cex):
    import os
    import tempfile
    from sqlfluff.core.helpers.file import get_encoding
    n, p = min(int(cex.get("file_bytes", 0)), 300000), min(int(cex.get("first_non_ascii_offset", 0)), 300000)
    body = b"-- " + b"x" * max(0, p - 3) if p >= 3 else b"x" * p
    if p < n:
        body += "é".encode("utf-8")
        body += b"y" * max(0, n - len(body))
    with tempfile.TemporaryDirectory() as d:
        f = os.path.join(d, "f.sql")
        open(f, "wb").write(body)
        enc = get_encoding(f, "autodetect")
        try:
            txt = open(f, encoding=enc, errors="strict").read()
            ok = txt.encode(enc) == body
        except Exception:
            ok = False
        if not ok:
            return (f"a {len(body)}-byte file whose first non-ASCII byte is at offset {p} is detected as {enc!r}; reading it with "
                    f"errors='backslashreplace' and writing it back does not reproduce its bytes")
    return None


_orig_units_c11 = units


def units(tier, seed):  # noqa: F811
    from lib.runner import Unit
    return _orig_units_c11(tier, seed) + [Unit(
        name="c11.encoding_detection", functions=["sqlfluff.core.helpers.file.get_encoding"],
        bounds={"file length": "unbounded", "offset of the first non-ASCII byte": "unbounded (or none)"},
        make=make_encoding(), replay=replay_encoding,
        stubs=["open(..., 'rb').read([k]) -> abstract byte text (length + offset of the first non-ASCII byte, no BOM)",
               "chardet.detect -> 'utf-8', records what it was shown"],
        assumptions=["no BOM", "chardet is right when it is shown the non-ASCII bytes"],
        outside=["BOM handling, utf-16/32", "undecodable bytes (design finding F9: read with backslashreplace, written back as escape text)"],
        witnesses_required=["ascii", "detected"], sharded=False, timeout_s=120)]
