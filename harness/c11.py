"""C11 Fixing preserves all untouched text byte-for-byte (patch-pipeline kernel)."""
from harness.patch_pipeline import pipeline_units

KNOWN = {}


def units(tier, seed):
    if tier == "quick":
        cfg = [("L", 2, 1), ("LTL", 2, 1), ("LSLEL", 1, 2), ("LCL", 2, 1)]
        t = 150
    else:
        cfg = [("L", 3, 1), ("LTL", 3, 1), ("LSLEL", 3, 1), ("LCL", 3, 1), ("LTL", 2, 2), ("L", 2, 2)]
        t = 1500
    return pipeline_units("C11", cfg, t)
