"""C11 Fixing preserves all untouched text byte-for-byte (patch-pipeline kernel)."""
from harness.patch_pipeline import pipeline_units

KNOWN = {}


def units(tier, seed):
    if tier == "quick":
        cfg = [("L", 2, 1), ("LTL", 2, 1), ("LSLEL", 1, 2), ("LCL", 2, 1)]
        t = 150
    else:
        cfg = [("L", 3, 1), ("LTL", 3, 1), ("LSLEL", 3, 1), ("LCL", 3, 1), ("LTL", 2, 2), ("L", 2, 2)]
        t = 1500
    return pipeline_units("C11", cfg, t)


# ---------------------------------------------------------------- encoding detection must be able to decode the WHOLE file

def make_encoding():
    import z3
    from symlite.values import SymInt, fresh_int, lift
    import sqlfluff.core.helpers.file as fmod

    class ByteText:
        """File content abstracted to: n bytes, all ASCII except (if p < n) a non-ASCII byte at offset p. No BOM."""

        def __init__(self, n, p):
            self.n, self.p = n, p

        def startswith(self, prefixes):
            return False

        def __iter__(self):
            # one representative per run is enough for per-byte predicates such as `char < 128`
            if bool(self.p > 0) and bool(self.n > 0):
                yield 65
            if bool(self.p < self.n):
                yield 233

        def prefix(self, k):
            m = SymInt(z3.If(lift(k) < lift(self.n), lift(k), lift(self.n)))
            return ByteText(m, self.p)

    def factory(excluded=frozenset()):
        def harness(c):
            n = fresh_int(c, "file_bytes", 0)
            p = fresh_int(c, "first_non_ascii_offset", 0)
            c.assume(p.e <= n.e)
            whole = ByteText(n, p)
            from symlite.values import fresh_bool
            # history: the same path may have been examined before, when it held other bytes
            has_prev = bool(fresh_bool(c, "same_path_examined_before"))
            if has_prev:
                n0 = fresh_int(c, "earlier_file_bytes", 0)
                p0 = fresh_int(c, "earlier_first_non_ascii_offset", 0)
                c.assume(p0.e <= n0.e)
            current = [ByteText(n0, p0) if has_prev else whole]

            class F:
                def __enter__(self):
                    return self

                def __exit__(self, *a):
                    return False

                def read(self, k=None):
                    w = current[0]
                    return w if k is None or (isinstance(k, int) and k < 0) else w.prefix(k)
            seen = {}

            def detect(data):
                seen["data"] = data
                return {"encoding": "utf-8"}
            real_open = getattr(fmod, "open", None)
            real_detect = fmod.chardet.detect
            fmod.open = lambda fname, mode="r", *a, **k: F()
            fmod.chardet = type("C", (), {"detect": staticmethod(detect)})
            try:
                if has_prev:
                    fmod.get_encoding("f.sql", "autodetect")   # REAL, earlier content
                    current[0] = whole
                    seen.clear()
                    c.witness("content_changed_between_calls")
                enc = fmod.get_encoding("f.sql", "autodetect")  # REAL
            finally:
                if hasattr(fmod.get_encoding, "cache_clear"):
                    fmod.get_encoding.cache_clear()
                import chardet as real_chardet
                fmod.chardet = real_chardet
                if real_open is None:
                    del fmod.open
            has_non_ascii = p.e < n.e
            if enc == "ascii":
                c.witness("ascii")
                return z3.Not(has_non_ascii)          # 'ascii' only if EVERY byte of the file is ASCII
            c.witness("detected")
            # the detector must have been shown the non-ASCII byte (i.e. the whole file up to it)
            d = seen.get("data")
            return z3.BoolVal(d is not None) if d is None else z3.And(has_non_ascii, lift(d.n) > p.e)
        return harness
    return factory


def replay_encoding(cex):
    import os
    import tempfile
    from sqlfluff.core.helpers.file import get_encoding
    n, p = min(int(cex.get("file_bytes", 0)), 300000), min(int(cex.get("first_non_ascii_offset", 0)), 300000)
    body = b"-- " + b"x" * max(0, p - 3) if p >= 3 else b"x" * p
    if p < n:
        body += "é".encode("utf-8")
        body += b"y" * max(0, n - len(body))
    with tempfile.TemporaryDirectory() as d:
        f = os.path.join(d, "f.sql")
        if cex.get("same_path_examined_before"):
            n0, p0 = min(int(cex.get("earlier_file_bytes", 0)), 300000), min(int(cex.get("earlier_first_non_ascii_offset", 0)), 300000)
            b0 = b"x" * p0 + ("é".encode("utf-8") + b"y" * max(0, n0 - p0 - 2) if p0 < n0 else b"")
            open(f, "wb").write(b0)
            get_encoding(f, "autodetect")
        open(f, "wb").write(body)
        enc = get_encoding(f, "autodetect")
        try:
            txt = open(f, encoding=enc, errors="strict").read()
            ok = txt.encode(enc) == body
        except Exception:
            ok = False
        if not ok:
            return (f"a {len(body)}-byte file whose first non-ASCII byte is at offset {p} is detected as {enc!r}; reading it with "
                    f"errors='backslashreplace' and writing it back does not reproduce its bytes")
    return None


_orig_units_c11 = units


def units(tier, seed):  # noqa: F811
    from lib.runner import Unit
    return _orig_units_c11(tier, seed) + [Unit(
        name="c11.encoding_detection", functions=["sqlfluff.core.helpers.file.get_encoding"],
        bounds={"file length": "unbounded", "offset of the first non-ASCII byte": "unbounded (or none)",
                "history": "the same path examined once before with arbitrary other content, or not"},
        make=make_encoding(), replay=replay_encoding,
        stubs=["open(..., 'rb').read([k]) -> abstract byte text (length + offset of the first non-ASCII byte, no BOM)",
               "chardet.detect -> 'utf-8', records what it was shown"],
        assumptions=["no BOM", "chardet is right when it is shown the non-ASCII bytes"],
        outside=["BOM handling, utf-16/32", "undecodable bytes (design finding F9: read with backslashreplace, written back as escape text)"],
        witnesses_required=["ascii", "detected", "content_changed_between_calls"], sharded=False, timeout_s=120)]


# ---------------------------------------------------------------- whole fix run on real files: bytes outside the edit survive
CHARS = {"ascii": "x", "e-acute": "é", "euro": "€", "y-diaeresis": "ÿ", "cjk": "中"}
FILE_ENCODINGS = ["utf-8", "utf-8-sig", "latin-1", "utf-16"]
CONF_ENCODINGS = ["utf-8", "utf-8-sig", "latin-1", "utf-16"]
WHERE = ["comment", "string"]
EOL = ["\n", "\r\n"]
KNOWN = {}


def _roundtrip_case(ch_name, file_enc, conf_enc, where, eol):
    ch = CHARS[ch_name]
    body = (f"-- note {ch}{eol}SELECT a  FROM t{eol}" if where == "comment" else f"SELECT '{ch}' AS s,  a FROM t{eol}")
    fixed_body = body.replace("a  FROM", "a FROM").replace(",  a", ", a")
    try:
        data = body.encode(file_enc)
    except UnicodeEncodeError:
        return None
    return body, fixed_body, data


def _decodable(data, enc):
    """Decodable the way the linter reads files (a text stream in that encoding, strict)."""
    import io
    try:
        io.TextIOWrapper(io.BytesIO(data), encoding=enc).read()
        return True
    except UnicodeError:
        return False


def run_roundtrip(ch_name, file_enc, conf_enc, where, eol):
    """Returns (problem or None, undecodable?) for one real `fix` run that applies the LT01 fix."""
    import os
    import tempfile
    from sqlfluff.core import FluffConfig, Linter
    case = _roundtrip_case(ch_name, file_enc, conf_enc, where, eol)
    if case is None:
        return None, False, False
    body, fixed_body, data = case
    undecodable = not _decodable(data, conf_enc)
    d = tempfile.mkdtemp(prefix="c11_")
    p = os.path.join(d, "f.sql")
    open(p, "wb").write(data)
    lin = Linter(config=FluffConfig(overrides={"dialect": "ansi", "rules": "LT01", "encoding": conf_enc}))
    res = lin.lint_paths((p,), fix=True, apply_fixes=True)
    out = open(p, "rb").read()
    import shutil
    shutil.rmtree(d, ignore_errors=True)
    changed = out != data

    def norm(b):
        # "after line endings are normalised to LF": compare modulo CR in whatever code unit width
        if conf_enc == "utf-16" or file_enc == "utf-16":
            try:
                return b.decode("utf-16").replace("\r\n", "\n").encode("utf-16")
            except UnicodeDecodeError:
                return b
        return b.replace(b"\r\n", b"\n")
    if undecodable:
        # the property: every byte outside the edit is written back unchanged. Locate the edit on the byte level:
        # the only allowed difference is ONE space byte removed.
        a, b = norm(data), norm(out)
        ok = any(a[:i] + a[i + 1:] == b for i in range(len(a)) if a[i:i + 1] == b" ") or a == b
        return (None if ok else f"bytes {data!r} read as {conf_enc}: written back as {out!r}"), True, changed
    import io
    text = io.TextIOWrapper(io.BytesIO(data), encoding=conf_enc, newline="").read()
    exp = norm(text.replace("a  FROM", "a FROM").replace(",  a", ", a").encode(conf_enc))
    got = norm(out)
    if got != exp and out != data:   # an unapplied fix (file left exactly as it was) is within the property
        return f"file bytes {data!r} (encoding = {conf_enc}): fixed file is {out!r}, expected {exp!r}", False, changed
    return None, False, changed


def make_roundtrip():
    def factory(excluded=frozenset()):
        def harness(c):
            from symlite.core import Abort
            from symlite.values import choose
            ch = choose(c, "character", list(CHARS))
            fe = choose(c, "file_written_in", FILE_ENCODINGS)
            ce = choose(c, "configured_encoding", CONF_ENCODINGS)
            wh = choose(c, "where", WHERE)
            eol = choose(c, "line_ending", EOL)
            case = _roundtrip_case(ch, fe, ce, wh, eol)
            if case is None:
                raise Abort()
            if not _decodable(case[2], ce) and "F9" in excluded:
                raise Abort()   # known finding F9: undecodable bytes come back as escape text
            problem, undec, changed = run_roundtrip(ch, fe, ce, wh, eol)   # REAL lint_paths(fix=True, apply_fixes=True)
            if changed:
                c.witness("file_rewritten")
            if ch != "ascii" and not undec:
                c.witness("non_ascii_decodable")
            if fe == "utf-8-sig" and ce == "utf-8-sig":
                c.witness("bom")
            return problem is None
        return harness
    return factory


def replay_roundtrip(cex):
    ch = list(CHARS)[int(cex.get("character", 0))]
    fe, ce = FILE_ENCODINGS[int(cex.get("file_written_in", 0))], CONF_ENCODINGS[int(cex.get("configured_encoding", 0))]
    wh, eol = WHERE[int(cex.get("where", 0))], EOL[int(cex.get("line_ending", 0))]
    if _roundtrip_case(ch, fe, ce, wh, eol) is None:
        return None
    return run_roundtrip(ch, fe, ce, wh, eol)[0]


def known_f9(entry):
    r = entry["replay"]
    return run_roundtrip(r["character"], r["file_written_in"], r["configured_encoding"], r["where"], "\n")[0]


KNOWN["F9"] = known_f9
_units_with_encoding = units


def units(tier, seed):  # noqa: F811
    from lib.runner import Unit
    return _units_with_encoding(tier, seed) + [Unit(
        name="c11.fix_roundtrip_bytes", functions=["sqlfluff.core.linter.linter.Linter.load_raw_file_and_config / lint_paths(fix, apply_fixes)",
                                                  "LintedFile.fix_string / persist_tree / _safe_create_replace_file"],
        bounds={"character": list(CHARS), "file written in": FILE_ENCODINGS, "configured encoding": CONF_ENCODINGS,
                "where": WHERE, "line ending": ["LF", "CRLF"], "fix": "one LT01 space removed elsewhere in the file"},
        make=make_roundtrip(), replay=replay_roundtrip,
        stubs=["none: a real file per explored path; compared on the byte level modulo CRLF->LF"],
        outside=["autodetect (see c11.encoding_detection)", "other encodings"],
        witnesses_required=["file_rewritten", "non_ascii_decodable", "bom"], sharded=True, timeout_s=900)]
