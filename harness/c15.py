"""C15 Capitalisation fixes change only letter case (CP01._handle_segment kernel, inherited by CP02-CP05)."""
from __future__ import annotations

from lib.runner import Unit
from symlite.values import NullLogger, choose, fresh_bool, fresh_int

KNOWN = {}
ALPHABET = ["a", "B", "1", "_"]
POLICIES = ["consistent", "upper", "lower", "capitalise", "pascal", "camel", "snake"]
MEMORIES = [None, ["upper"], ["lower"], ["upper", "lower"], ["upper", "lower", "capitalise"]]


def run_kernel(raw, policy, refuted, latest):
    from sqlfluff.core.parser.segments import KeywordSegment
    from sqlfluff.rules.capitalisation.CP01 import Rule_CP01
    rule = Rule_CP01(code="CP01", description="d", capitalisation_policy=policy, ignore_words=None, ignore_words_regex=None)
    rule.logger = NullLogger()
    rule.cap_policy = policy
    rule.cap_policy_opts = ["upper", "lower", "capitalise"]
    rule.ignore_words_list = []
    rule.ignore_templated_areas = True
    seg = KeywordSegment(raw)
    seg.__dict__["is_templated"] = False

    class Ctx:
        memory = {}
    if refuted is not None:
        Ctx.memory = {"refuted_cases": set(refuted)}
        if latest:
            Ctx.memory["latest_possible_case"] = latest
    res = rule._handle_segment(seg, Ctx)  # REAL
    return seg, res


def judge(raw, seg, res):
    if not res.fixes:
        return []
    problems = []
    for fx in res.fixes:
        if fx.edit_type != "replace" or fx.anchor is not seg or len(fx.edit) != 1:
            problems.append(f"fix is not a replacement of exactly the anchored token: {fx}")
            continue
        new = fx.edit[0].raw
        if new.lower() != raw.lower():
            problems.append(f"{raw!r} -> {new!r} changes more than letter case")
        if fx.edit[0].get_type() != seg.get_type():
            problems.append(f"token type changed {seg.get_type()} -> {fx.edit[0].get_type()}")
    return problems


def make(max_len):
    def factory(excluded=frozenset()):
        def harness(c):
            n = int(fresh_int(c, "length", 1, max_len))
            raw = "".join(choose(c, f"ch{i}", ALPHABET) for i in range(n))
            policy = choose(c, "policy", POLICIES)
            if "CP_SNAKE" in excluded and policy == "snake":
                from symlite.core import Abort
                raise Abort()  # known finding: the snake policy inserts underscores by design
            refuted = choose(c, "memory", MEMORIES)
            latest = choose(c, "latest", [None, "upper", "lower"]) if refuted is not None else None
            seg, res = run_kernel(raw, policy, refuted, latest)
            if res.fixes:
                c.witness("fix_produced")
            return not judge(raw, seg, res)
        return harness
    return factory


def replay(max_len):
    def rp(cex):
        n = int(cex.get("length", 1))
        raw = "".join(ALPHABET[int(cex.get(f"ch{i}", 0))] for i in range(n))
        policy = POLICIES[int(cex.get("policy", 0))]
        refuted = MEMORIES[int(cex.get("memory", 0))]
        latest = [None, "upper", "lower"][int(cex.get("latest", 0))] if refuted is not None else None
        seg, res = run_kernel(raw, policy, refuted, latest)
        p = judge(raw, seg, res)
        return f"capitalisation_policy={policy}, memory={refuted}/{latest}: " + "; ".join(p) if p else None
    return rp


# ---------------------------------------------------------------- which tokens the rules pick (real crawl + real _eval)
PROTECTED = {"quoted_identifier", "quoted_literal", "inline_comment", "block_comment", "whitespace"}
CHILD_KINDS = ["keyword", "naked_identifier", "quoted_identifier", "quoted_literal", "inline_comment", "block_comment", "whitespace",
               "data_type_identifier", "boolean_literal", "function_name_identifier", "word"]
PARENT_TYPES = ["data_type", "primitive_type", "datetime_type_identifier", "column_reference", "function_name", "select_clause_element",
                "expression"]
GRAND_TYPES = ["statement", "data_type", "function", "column_definition"]
SEL_POLICIES = ["upper", "lower"]
_NODE, _RULES = {}, {}


def _node(t):
    from sqlfluff.core.parser.segments import BaseSegment
    if t not in _NODE:
        _NODE[t] = type(f"N_{t}", (BaseSegment,), {"type": t, "can_start_end_non_code": True})
    return _NODE[t]


def _child(kind, pm):
    from sqlfluff.core.parser.segments import (CodeSegment, CommentSegment, IdentifierSegment, KeywordSegment, LiteralSegment,
                                               WhitespaceSegment, WordSegment)
    return {
        "keyword": lambda: KeywordSegment("fooBar", pm),
        "naked_identifier": lambda: IdentifierSegment("fooBar", pm, instance_types=("naked_identifier",)),
        "quoted_identifier": lambda: IdentifierSegment('"fooBar"', pm, instance_types=("quoted_identifier",)),
        "quoted_literal": lambda: LiteralSegment("'fooBar'", pm, instance_types=("quoted_literal",)),
        "inline_comment": lambda: CommentSegment("-- fooBar", pm, instance_types=("inline_comment",)),
        "block_comment": lambda: CommentSegment("/* fooBar */", pm, instance_types=("block_comment",)),
        "whitespace": lambda: WhitespaceSegment(" ", pm),
        "data_type_identifier": lambda: CodeSegment("fooBar", pm, instance_types=("data_type_identifier",)),
        "boolean_literal": lambda: LiteralSegment("tRue", pm, instance_types=("boolean_literal",)),
        "function_name_identifier": lambda: CodeSegment("fooBar", pm, instance_types=("function_name_identifier",)),
        "word": lambda: WordSegment("fooBar", pm),
    }[kind]()


def _cp_rules(policy):
    if policy not in _RULES:
        from sqlfluff.core import FluffConfig, Linter
        names = ["capitalisation.keywords", "capitalisation.identifiers", "capitalisation.functions", "capitalisation.literals",
                 "capitalisation.types"]
        cfg = FluffConfig(overrides={"dialect": "ansi", "rules": "CP01,CP02,CP03,CP04,CP05"},
                          configs={"rules": {n: {("capitalisation_policy" if n in (names[0], names[3]) else "extended_capitalisation_policy"): policy}
                                             for n in names}})
        _RULES[policy] = (cfg, {r.code: r for r in Linter(config=cfg).get_rulepack(config=cfg).rules})
    return _RULES[policy]


def run_selection(rule_code, policy, grand, parent, kinds):
    """file > statement > grand > parent > [children...]; returns [(kind, old raw, new raw)] for every fix the rule proposes."""
    from sqlfluff.core.parser.markers import PositionMarker
    from sqlfluff.core.templaters import TemplatedFile
    cfg, rules = _cp_rules(policy)
    texts, pos, kids = [], 0, []
    probe = [_child(k, None).raw for k in kinds]
    tf = TemplatedFile.from_string("".join(probe))
    for k, raw in zip(kinds, probe):
        kids.append(_child(k, PositionMarker(slice(pos, pos + len(raw)), slice(pos, pos + len(raw)), tf)))
        pos += len(raw)
    tree = _node("file")((_node("statement")((_node(grand)((_node(parent)(tuple(kids)),)),)),))
    vs, _, fixes, _ = rules[rule_code].crawl(tree, dialect=cfg.get("dialect_obj"), fix=True, templated_file=tf, ignore_mask=None,
                                             fname=None, config=cfg)
    out = []
    for v in vs:
        for fx in v.fixes:
            k = [kind for kind, seg in zip(kinds, kids) if seg is fx.anchor]
            out.append((k[0] if k else "<other>", fx.anchor.raw, "".join(e.raw for e in (fx.edit or []))))
    return out


def judge_selection(got):
    problems = []
    for kind, old, new in got:
        if kind in PROTECTED or kind == "<other>":
            problems.append(f"{kind} token {old!r} rewritten to {new!r}")
        elif new.lower() != old.lower():
            problems.append(f"{old!r} -> {new!r} changes more than letter case")
    return problems


def make_selection():
    def factory(excluded=frozenset()):
        def harness(c):
            rule = choose(c, "rule", ["CP01", "CP02", "CP03", "CP04", "CP05"])
            policy = choose(c, "policy", SEL_POLICIES)
            grand, parent = choose(c, "grandparent_type", GRAND_TYPES), choose(c, "parent_type", PARENT_TYPES)
            kinds = [choose(c, "token_kind", CHILD_KINDS)]
            if bool(fresh_bool(c, "has_sibling")):
                kinds.append(choose(c, "sibling_kind", ["keyword", "whitespace", "naked_identifier"]))
            got = run_selection(rule, policy, grand, parent, kinds)   # REAL crawl + _eval
            if got:
                c.witness("fix_produced")
            if kinds[0] in PROTECTED:
                c.witness("protected_token_offered")
            return not judge_selection(got)
        return harness
    return factory


def replay_selection(cex):
    rule = ["CP01", "CP02", "CP03", "CP04", "CP05"][int(cex.get("rule", 0))]
    policy = SEL_POLICIES[int(cex.get("policy", 0))]
    grand, parent = GRAND_TYPES[int(cex.get("grandparent_type", 0))], PARENT_TYPES[int(cex.get("parent_type", 0))]
    kinds = [CHILD_KINDS[int(cex.get("token_kind", 0))]]
    if cex.get("has_sibling"):
        kinds.append(["keyword", "whitespace", "naked_identifier"][int(cex.get("sibling_kind", 0))])
    p = judge_selection(run_selection(rule, policy, grand, parent, kinds))
    return f"{rule} ({policy}) on {grand} > {parent} > {kinds}: " + "; ".join(p) if p else None


def known_snake(entry):
    """End to end: CP02 with extended_capitalisation_policy=snake rewrites an identifier with extra characters."""
    import sqlfluff
    from sqlfluff.core import FluffConfig
    cfg = FluffConfig(overrides={"dialect": "ansi", "rules": "CP02"},
                      configs={"rules": {"capitalisation.identifiers": {"extended_capitalisation_policy": "snake"}}})
    src = entry["replay"]["source"]
    out = sqlfluff.fix(src, config=cfg)
    return f"{src!r} -> {out!r}" if out.lower() != src.lower() else None


KNOWN = {"CP_SNAKE": known_snake}


def units(tier, seed):
    m = 3 if tier == "quick" else 4
    return [Unit(
        name=f"c15.cp01_handle_segment[raw length <= {m}]",
        functions=["sqlfluff.rules.capitalisation.CP01.Rule_CP01._handle_segment", "Rule_CP01._get_fix", "RawSegment.edit", "LintFix.replace"],
        bounds={"token text": f"all strings over {ALPHABET} of length <= {m}", "policies": POLICIES, "memory states": MEMORIES},
        make=make(m), replay=replay(m),
        stubs=["rule context -> memory dict only; the token is a real KeywordSegment"],
        outside=["which segments the crawler selects (quoted identifiers, strings, comments are never handed to this kernel)",
                 "non-ASCII case mappings"],
        witnesses_required=["fix_produced"], sharded=True, timeout_s=600 if tier == "quick" else 1800),
        Unit(name="c15.token_selection",
             functions=["sqlfluff.rules.capitalisation.CP01..CP05._eval", "SegmentSeekerCrawler.crawl", "BaseRule.crawl",
                        "sqlfluff.utils.identifers.identifiers_policy_applicable"],
             bounds={"rule": "CP01..CP05", "policy": SEL_POLICIES, "token kind": CHILD_KINDS, "parent type": PARENT_TYPES,
                     "grandparent type": GRAND_TYPES, "sibling": "none / keyword / whitespace / identifier"},
             make=make_selection(), replay=replay_selection,
             stubs=["tree = real segment classes (ansi token classes, ad-hoc BaseSegment subclasses for the structural types): "
                    "file > statement > grandparent > parent > tokens"],
             outside=["dialect-specific token classes", "trees deeper than this", "templated tokens"],
             witnesses_required=["fix_produced", "protected_token_offered"], sharded=True, timeout_s=600)]
