"""C15 Capitalisation fixes change only letter case (CP01._handle_segment kernel, inherited by CP02-CP05)."""
from __future__ import annotations

from lib.runner import Unit
from symlite.values import NullLogger, choose, fresh_bool, fresh_int

KNOWN = {}
ALPHABET = ["a", "B", "1", "_"]
POLICIES = ["consistent", "upper", "lower", "capitalise", "pascal", "camel", "snake"]
MEMORIES = [None, ["upper"], ["lower"], ["upper", "lower"], ["upper", "lower", "capitalise"]]


def run_kernel(raw, policy, refuted, latest):
    from sqlfluff.core.parser.segments import KeywordSegment
    from sqlfluff.rules.capitalisation.CP01 import Rule_CP01
    rule = Rule_CP01(code="CP01", description="d", capitalisation_policy=policy, ignore_words=None, ignore_words_regex=None)
    rule.logger = NullLogger()
    rule.cap_policy = policy
    rule.cap_policy_opts = ["upper", "lower", "capitalise"]
    rule.ignore_words_list = []
    rule.ignore_templated_areas = True
    seg = KeywordSegment(raw)
    seg.__dict__["is_templated"] = False

    class Ctx:
        memory = {}
    if refuted is not None:
        Ctx.memory = {"refuted_cases": set(refuted)}
        if latest:
            Ctx.memory["latest_possible_case"] = latest
    res = rule._handle_segment(seg, Ctx)  # REAL
    return seg, res


def judge(raw, seg, res):
    if not res.fixes:
        return []
    problems = []
    for fx in res.fixes:
        if fx.edit_type != "replace" or fx.anchor is not seg or len(fx.edit) != 1:
            problems.append(f"fix is not a replacement of exactly the anchored token: {fx}")
            continue
        new = fx.edit[0].raw
        if new.lower() != raw.lower():
            problems.append(f"{raw!r} -> {new!r} changes more than letter case")
        if fx.edit[0].get_type() != seg.get_type():
            problems.append(f"token type changed {seg.get_type()} -> {fx.edit[0].get_type()}")
    return problems


def make(max_len):
    def factory(excluded=frozenset()):
        def harness(c):
            n = int(fresh_int(c, "length", 1, max_len))
            raw = "".join(choose(c, f"ch{i}", ALPHABET) for i in range(n))
            policy = choose(c, "policy", POLICIES)
            if "CP_SNAKE" in excluded and policy == "snake":
                from symlite.core import Abort
                raise Abort()  # known finding: the snake policy inserts underscores by design
            refuted = choose(c, "memory", MEMORIES)
            latest = choose(c, "latest", [None, "upper", "lower"]) if refuted is not None else None
            seg, res = run_kernel(raw, policy, refuted, latest)
            if res.fixes:
                c.witness("fix_produced")
            return not judge(raw, seg, res)
        return harness
    return factory


def replay(max_len):
    def rp(cex):
        n = int(cex.get("length", 1))
        raw = "".join(ALPHABET[int(cex.get(f"ch{i}", 0))] for i in range(n))
        policy = POLICIES[int(cex.get("policy", 0))]
        refuted = MEMORIES[int(cex.get("memory", 0))]
        latest = [None, "upper", "lower"][int(cex.get("latest", 0))] if refuted is not None else None
        seg, res = run_kernel(raw, policy, refuted, latest)
        p = judge(raw, seg, res)
        return f"capitalisation_policy={policy}, memory={refuted}/{latest}: " + "; ".join(p) if p else None
    return rp


def known_snake(entry):
    """End to end: CP02 with extended_capitalisation_policy=snake rewrites an identifier with extra characters."""
    import sqlfluff
    from sqlfluff.core import FluffConfig
    cfg = FluffConfig(overrides={"dialect": "ansi", "rules": "CP02"},
                      configs={"rules": {"capitalisation.identifiers": {"extended_capitalisation_policy": "snake"}}})
    src = entry["replay"]["source"]
    out = sqlfluff.fix(src, config=cfg)
    return f"{src!r} -> {out!r}" if out.lower() != src.lower() else None


KNOWN = {"CP_SNAKE": known_snake}


def units(tier, seed):
    m = 3 if tier == "quick" else 4
    return [Unit(
        name=f"c15.cp01_handle_segment[raw length <= {m}]",
        functions=["sqlfluff.rules.capitalisation.CP01.Rule_CP01._handle_segment", "Rule_CP01._get_fix", "RawSegment.edit", "LintFix.replace"],
        bounds={"token text": f"all strings over {ALPHABET} of length <= {m}", "policies": POLICIES, "memory states": MEMORIES},
        make=make(m), replay=replay(m),
        stubs=["rule context -> memory dict only; the token is a real KeywordSegment"],
        outside=["which segments the crawler selects (quoted identifiers, strings, comments are never handed to this kernel)",
                 "non-ASCII case mappings"],
        witnesses_required=["fix_produced"], sharded=True, timeout_s=600 if tier == "quick" else 1800)]
