"""C18 Files with template or parse errors are never modified by fix."""
from __future__ import annotations

from lib.runner import Unit
from symlite.values import NullLogger, fresh_bool, fresh_int

from harness import outcome as oc

KNOWN = {}


def make_paths(n_files):
    def factory(excluded=frozenset()):
        def harness(c):
            feu = bool(fresh_bool(c, "fix_even_unparsable"))
            files, descs = [], []
            for i in range(n_files):
                f, d = oc.sym_file(c, f"f{i}", f"d/f{i}.sql", 4 if n_files == 1 else ["PRS", "LINT_FIX"])
                files.append(f)
                descs.append(d)
            code, persisted = oc.run_paths_fix(files, feu)  # REAL _paths_fix + lint_paths + LintedDir
            ok = True
            for f, d in zip(files, descs):
                if oc.has_tmp_prs(d) and not feu and f.path in persisted:
                    ok = False
                if f.path in persisted:
                    c.witness("some_file_written")
                if oc.has_tmp_prs(d) and all(ig for k, ig, wa in d if k in ("TMP", "PRS")):
                    c.witness("suppressed_error")
            return ok
        return harness
    return factory


def make_stdin():
    def factory(excluded=frozenset()):
        def harness(c):
            feu = bool(fresh_bool(c, "fix_even_unparsable"))
            f, d = oc.sym_file(c, "f0", "stdin", 4)
            code, out = oc.run_stdin_fix(f, feu)  # REAL _stdin_fix
            if out == oc.FIXED_TEXT:
                c.witness("fixed_output")
            if oc.has_tmp_prs(d) and not feu:
                return out == "<<stdin text>>"
            return out in ("<<stdin text>>", oc.FIXED_TEXT)
        return harness
    return factory


def make_api():
    def factory(excluded=frozenset()):
        def harness(c):
            feu = bool(fresh_bool(c, "fix_even_unparsable"))
            f, d = oc.sym_file(c, "f0", "<string input>", 4)
            out = oc.run_api_fix(f, feu)  # REAL api.simple.fix
            if out == oc.FIXED_TEXT:
                c.witness("fixed_output")
            if oc.has_tmp_prs(d) and not feu:
                return out == "<<stdin text>>"
            return out in ("<<stdin text>>", oc.FIXED_TEXT)
        return harness
    return factory


def replay_desc_fix(prefix="f0"):
    """End-to-end replay: the real `sqlfluff fix` on a real file realising the kind/flag vector."""
    def rp(cex):
        desc = [(k, bool(cex.get(f"{prefix}_{k}_ignored")), bool(cex.get(f"{prefix}_{k}_warning")))
                for k in oc.KINDS if cex.get(f"{prefix}_{k}")]
        feu = bool(cex.get("fix_even_unparsable"))
        def once():
            code, changed, sql, out = oc.cli_fix_on_disk(desc, feu)
            if oc.has_tmp_prs(desc) and not feu and changed:
                return f"`sqlfluff fix` rewrote a file with a templating/parsing error: {sql!r} (violations {desc})"
            return None
        return oc.each_style(once)
    return rp


# ---------------------------------------------------------------- fix loop limit rollback

def make_loop_limit():
    def factory(excluded=frozenset()):
        import sqlfluff.core.linter.linter as lmod
        from sqlfluff.core import FluffConfig, Linter
        from sqlfluff.core.errors import SQLLintError
        from sqlfluff.core.rules.base import RulePack
        lmod.linter_logger = NullLogger()

        def harness(c):
            limit = int(fresh_int(c, "runaway_limit", 1, 3))

            class Tree:
                def __init__(self, ver):
                    self.raw, self.source_fixes, self.ver = f"v{ver}", [], ver

                def recursive_crawl(self, *a, **k):
                    return iter(())

                def stringify(self):
                    return self.raw
            versions = [Tree(0)]
            state = {"crawls": 0, "changes": []}
            errs = []

            class Crawler:
                code, name, lint_phase, is_fix_compatible = "ZZ01", "zz", "main", True

                def crawl(self, tree, dialect, fix, templated_file, ignore_mask, fname, config):
                    state["crawls"] += 1
                    e = SQLLintError("d", oc._Seg(), self, fixes=[oc._Fix()])
                    if state["crawls"] == 1:
                        errs.append(e)
                    if bool(fresh_bool(c, f"has_fix{state['crawls']}")):
                        return [e], (), [("fix", state["crawls"])], None
                    return [e], (), [], None

            class PostCrawler:
                """A post-phase rule (like LT12/CP01) that always has one more fix to offer."""
                code, name, lint_phase, is_fix_compatible = "ZZ02", "zz2", "post", True

                def crawl(self, tree, dialect, fix, templated_file, ignore_mask, fname, config):
                    # offers its fix whenever the tree it is shown does not carry it yet (like a missing final newline)
                    e = SQLLintError("p", oc._Seg(), self, fixes=[oc._Fix()])
                    if not getattr(tree, "post_done", False):
                        state["post_offers"] = state.get("post_offers", 0) + 1
                        return [e], (), [("postfix", state["post_offers"])], None
                    return [], (), [], None

            def apply_fixes(tree, dialect, code, anchor_info, **kw):
                if code == "ZZ02":
                    t = Tree(len(versions))
                    t.post_done = True
                    versions.append(t)
                    return t, (), (), True
                how = int(fresh_int(c, f"apply{state['crawls']}", 0, 2))
                if how == 0:
                    t = Tree(len(versions))        # a new, never seen version
                    versions.append(t)
                elif how == 1:
                    t = tree                        # nothing could be applied
                else:
                    t = versions[0] if tree is not versions[0] else tree   # back to a version seen before
                state["changes"].append(how)
                return t, (), (), True
            real_apply, real_info = lmod.apply_fixes, lmod.compute_anchor_edit_info
            lmod.apply_fixes, lmod.compute_anchor_edit_info = apply_fixes, (lambda fixes: {})
            try:
                cfg = FluffConfig(overrides={"dialect": "ansi", "runaway_limit": limit, "ignore_templated_areas": False})
                with_post = bool(fresh_bool(c, "has_post_phase_rule"))
                pack = RulePack([Crawler()] + ([PostCrawler()] if with_post else []), {"ZZ01": {"ZZ01"}, "ZZ02": {"ZZ02"}})
                out_tree, vs, mask, _ = Linter.lint_fix_parsed(versions[0], config=cfg, rule_pack=pack, fix=True)  # REAL
            finally:
                lmod.apply_fixes, lmod.compute_anchor_edit_info = real_apply, real_info
            # independent reading of the statement: if every one of the `limit` loops changed the file (never stable)
            # the original tree must come back and every initial violation must be unfixable
            main_changes = [h for h in state["changes"]]
            unstable = len([h for h in main_changes if h == 0]) >= limit and state["crawls"] >= limit and \
                all(h == 0 for h in main_changes[:limit])
            if unstable:
                c.witness("limit_reached")
                if with_post:
                    c.witness("limit_reached_with_post_phase_rule")
                return out_tree is versions[0] and all(v.fixes == [] for v in vs if isinstance(v, SQLLintError))
            c.witness("stable")
            return True
        return harness
    return factory


def units(tier, seed):
    nf = [1, 2] if tier == "quick" else [1, 2]
    us = []
    for n in nf:
        us.append(Unit(
            name=f"c18.cli_paths[{n} files]",
            functions=["sqlfluff.cli.commands._paths_fix", "sqlfluff.cli.commands._handle_unparsable",
                       "sqlfluff.core.linter.linter.Linter.lint_paths (apply gate)", "sqlfluff.core.linter.linted_dir.LintedDir.add/"
                       "discard_fixes_for_lint_errors_in_files_with_tmp_or_prs_errors", "LintedFile.num_violations/get_violations"],
            bounds={"files": n, "violation kinds per file": "any subset of TMP/PRS/fixable lint/unfixable lint" if n == 1 else "any subset of PRS/fixable lint", "flags": "ignore, warning per violation; fix_even_unparsable"},
            make=make_paths(n), replay=replay_desc_fix("f0") if n == 1 else "concrete",
            stubs=["runner -> yields the forked LintedFile objects", "persist_tree/fix_string -> record the call", "file discovery -> fixed list",
                   "formatter/click.echo -> swallowed"],
            witnesses_required=["some_file_written", "suppressed_error"], sharded=True, timeout_s=600))
    us.append(Unit(
        name="c18.cli_stdin", functions=["sqlfluff.cli.commands._stdin_fix", "_handle_unparsable", "LintedDir.add", "LintingResult.num_violations"],
        bounds={"violation kinds": "any subset of 4", "flags": "all"}, make=make_stdin(), replay=replay_desc_fix("f0"),
        stubs=["linter.lint_string_wrapped -> LintingResult holding the forked LintedFile", "sys.stdin/click.echo captured"],
        witnesses_required=["fixed_output"], sharded=True, timeout_s=600))
    us.append(Unit(
        name="c18.api_fix", functions=["sqlfluff.api.simple.fix", "LintingResult.count_tmp_prs_errors"],
        bounds={"violation kinds": "any subset of 4", "flags": "all"}, make=make_api(), replay=replay_desc_fix("f0"),
        stubs=["Linter.lint_string_wrapped -> LintingResult holding the forked LintedFile"],
        witnesses_required=["fixed_output"], sharded=True, timeout_s=600))
    us.append(Unit(
        name="c18.loop_limit_rollback", functions=["sqlfluff.core.linter.linter.Linter.lint_fix_parsed"],
        bounds={"runaway_limit": "1..3", "per-loop outcome": "new version / nothing applied / back to a seen version; fixes present or not"},
        make=make_loop_limit(), replay="concrete",
        stubs=["crawler -> one violation (+ optional fix) per pass", "apply_fixes -> opaque tree versions", "compute_anchor_edit_info -> {}"],
        witnesses_required=["limit_reached", "stable", "limit_reached_with_post_phase_rule"], sharded=True, timeout_s=600))
    return us
