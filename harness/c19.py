"""C19 All entry points agree (narrow): given the same per-file lint outcome, path / stdin / API routes agree."""
from __future__ import annotations

from lib.runner import Unit
from symlite.values import fresh_bool

from harness import outcome as oc
from harness.c22 import _f21_pattern, desc_of, replay_fix, replay_fix_stdin

KNOWN = {}


def make_fix():
    def factory(excluded=frozenset()):
        def harness(c):
            feu = bool(fresh_bool(c, "fix_even_unparsable"))
            f, d = oc.sym_file(c, "f0", "d/f0.sql", 4)
            from symlite.core import Abort
            if "F21" in excluded and _f21_pattern(d, feu):
                raise Abort()
            if "F23" in excluded and _f23_pattern(d, feu):
                raise Abort()
            if "F24" in excluded and _f24_pattern(d, feu):
                raise Abort()
            code_p, persisted = oc.run_paths_fix([f], feu)       # REAL _paths_fix
            code_s, out_s = oc.run_stdin_fix(f, feu)              # REAL _stdin_fix
            out_a = oc.run_api_fix(f, feu)                        # REAL api.simple.fix
            mod_p, mod_s, mod_a = bool(persisted), out_s != "<<stdin text>>", out_a != "<<stdin text>>"
            if mod_p:
                c.witness("modified")
            if code_p == 1:
                c.witness("exit1")
            return mod_p == mod_s == mod_a and code_p == code_s
        return harness
    return factory


def _f23_pattern(d, feu):
    """known finding F23: a fixable violation configured as a WARNING is fixed when the file is given by path (and by the
    API) but not via stdin (stdin counts fixable violations with warnings filtered out)."""
    blocked = (not feu) and oc.has_tmp_prs(d)
    return (not blocked) and any(k == "LINT_FIX" and wa and not ig for k, ig, wa in d) and \
        not any(k == "LINT_FIX" and not wa and not ig for k, ig, wa in d)


def _f24_pattern(d, feu):
    """known finding F24: with --FIX-EVEN-UNPARSABLE an unsuppressed templating error makes `fix -` exit 1 but `fix <path>` exit 0."""
    return feu and any(k == "TMP" and not ig and not wa for k, ig, wa in d)


def make_lint():
    def factory(excluded=frozenset()):
        def harness(c):
            from sqlfluff.core.linter.linted_dir import LintedDir
            from sqlfluff.core.linter.linting_result import LintingResult
            f, d = oc.sym_file(c, "f0", "d/f0.sql", 4)
            # path route: real lint_paths assembly; stdin/API route: LintingResult around LintedDir(fname).add(file)
            lin = oc.linter_for([f])
            try:
                res_p = lin.lint_paths(("d",))
            finally:
                oc.restore()
            res_s = LintingResult()
            ld = LintedDir("stdin")
            ld.add(f)
            res_s.add(ld)
            rec_p, rec_s = res_p.as_records(), res_s.as_records()
            same = [r["violations"] for r in rec_p] == [r["violations"] for r in rec_s]
            sp, ss = res_p.stats(1, 0), res_s.stats(1, 0)
            if rec_p and rec_p[0]["violations"]:
                c.witness("violations")
            return same and sp["exit code"] == ss["exit code"] and sp["violations"] == ss["violations"]
        return harness
    return factory


def replay(cex):
    """End-to-end: real CLI by path vs real CLI via stdin on the same real file."""
    d = desc_of(cex)
    feu = bool(cex.get("fix_even_unparsable"))
    def once():
        cp, changed_p, sql, _ = oc.cli_fix_on_disk(d, feu)
        cs, changed_s, _ = oc.cli_fix_stdin(d, feu)
        if (cp, changed_p) != (cs, changed_s):
            return f"`sqlfluff fix` on {sql!r}: by path exit={cp} modified={changed_p}; via stdin exit={cs} modified={changed_s}"
        return None
    return oc.each_style(once)


def known_f21(entry):
    return replay(entry["replay"]["model"])


KNOWN = {"F21": known_f21, "F23": known_f21, "F24": known_f21}


# ---------------------------------------------------------------- same project config, three entry points (real runs)
CFG_DIMS = {
    "cfg_disable_noqa": [None, "disable_noqa = True"],
    "cfg_rules": [None, "rules = LT01,CP01,AM04"],
    "cfg_exclude": [None, "exclude_rules = CP01"],
    "cfg_warnings": [None, "warnings = LT01"],
}
INLINE = ["", "-- sqlfluff:rules:LT01\n", "-- sqlfluff:exclude_rules:LT01\n", "-- sqlfluff:rules:capitalisation.keywords:capitalisation_policy:upper\n"]
NOQA = ["", " -- noqa: LT01", " -- noqa"]


def _project(vals):
    import os
    import tempfile
    d = os.path.realpath(tempfile.mkdtemp(prefix="c19_"))
    body = "[sqlfluff]\ndialect = ansi\n" + "".join(v + "\n" for k, v in vals.items() if k in CFG_DIMS and v)
    open(os.path.join(d, ".sqlfluff"), "w").write(body)
    sql = vals["inline"] + "SELECT a  from b" + vals["noqa"] + "\n"
    open(os.path.join(d, "q.sql"), "w").write(sql)
    return d, sql


def routes(vals, do_fix):
    """(path route, stdin route, API route) results for one project; real CLI through click's CliRunner, cwd = project."""
    import json
    import os
    import shutil
    import sqlfluff
    from click.testing import CliRunner
    from sqlfluff.cli import commands as cmds
    d, sql = _project(vals)
    cwd = os.getcwd()
    os.chdir(d)
    try:
        def run(args, inp=None):
            try:
                return CliRunner(mix_stderr=False).invoke(cmds.cli, args, input=inp)
            except TypeError:
                return CliRunner().invoke(cmds.cli, args, input=inp)
        if not do_fix:
            def viol(out):
                return sorted((v["code"], v["start_line_no"], v["start_line_pos"], bool(v.get("warning"))) for f in json.loads(out) for v in f["violations"])
            rp = run(["lint", "q.sql", "--format", "json"])
            rs = run(["lint", "-", "--stdin-filename", "q.sql", "--format", "json"], sql)
            api = sorted((v["code"], v["start_line_no"], v["start_line_pos"], bool(v.get("warning"))) for v in sqlfluff.lint(sql, config_path=".sqlfluff"))
            return (viol(rp.stdout), rp.exit_code), (viol(rs.stdout), rs.exit_code), (api, None), sql
        rp = run(["fix", "q.sql", "-f"])
        fixed_p = open("q.sql").read()
        rs = run(["fix", "-", "--stdin-filename", "q.sql"], sql)
        api = sqlfluff.fix(sql, config_path=".sqlfluff")
        return (fixed_p, rp.exit_code), (rs.stdout, rs.exit_code), (api, None), sql
    finally:
        os.chdir(cwd)
        shutil.rmtree(d, ignore_errors=True)


def judge_routes(vals, do_fix):
    (p, cp), (s_, cs), (a, _), sql = routes(vals, do_fix)
    what = "fix" if do_fix else "lint"
    cfg = [v for k, v in vals.items() if k in CFG_DIMS and v]
    if not (p == s_ == a) or cp != cs:
        return (f"project .sqlfluff {cfg}, file {sql!r}: `sqlfluff {what}` by path -> {p!r} (exit {cp}); via stdin --stdin-filename -> "
                f"{s_!r} (exit {cs}); Python API -> {a!r}")
    return None


def make_cfg_routes(do_fix):
    def factory(excluded=frozenset()):
        def harness(c):
            from symlite.values import choose
            vals = {k: choose(c, k, alts) for k, alts in CFG_DIMS.items() if not (do_fix and k == "cfg_warnings")}
            vals["inline"] = choose(c, "inline", INLINE)
            vals["noqa"] = choose(c, "noqa", NOQA)
            if vals.get("cfg_disable_noqa") and vals["noqa"]:
                c.witness("noqa_disabled_by_config")
            if vals["inline"]:
                c.witness("inline_directive")
            return not judge_routes(vals, do_fix)
        return harness
    return factory


def replay_cfg_routes(do_fix):
    def rp(cex):
        vals = {k: alts[int(cex.get(k, 0))] for k, alts in CFG_DIMS.items() if not (do_fix and k == "cfg_warnings")}
        vals["inline"] = INLINE[int(cex.get("inline", 0))]
        vals["noqa"] = NOQA[int(cex.get("noqa", 0))]
        return judge_routes(vals, do_fix)
    return rp


def units(tier, seed):
    return [Unit(name=f"c19.config_routes_agree[{'fix' if do_fix else 'lint'}]",
                 functions=["sqlfluff.cli.commands.lint/fix (path and stdin branches, get_config/get_linter_and_formatter overrides)",
                            "sqlfluff.api.simple.lint/fix/get_simple_config", "Linter.lint_string/lint_paths"],
                 bounds={"project .sqlfluff settings": {k: [a for a in v if a] for k, v in CFG_DIMS.items()}, "inline directive": INLINE,
                         "noqa comment": NOQA, "sql": "SELECT a  from b"},
                 make=make_cfg_routes(do_fix), replay=replay_cfg_routes(do_fix),
                 stubs=["none: a real project directory per explored path, the real CLI through click's CliRunner with cwd = project"],
                 outside=["settings not in the pool", "warnings setting in fix mode (known finding F23)"],
                 witnesses_required=["noqa_disabled_by_config", "inline_directive"], sharded=True, timeout_s=900)
            for do_fix in (False, True)] + [
        Unit(name="c19.fix_routes_agree", functions=["sqlfluff.cli.commands._paths_fix", "_stdin_fix", "sqlfluff.api.simple.fix", "_handle_unparsable"],
             bounds={"violation kinds/flags": "all subsets of 4 kinds x ignore x warning", "fix_even_unparsable": "both"},
             make=make_fix(), replay=replay,
             stubs=["the three routes are handed the SAME LintedFile (same lint outcome)"],
             outside=["that the three routes compute the same LintedFile (config discovery, stdin-filename handling, encoding): I/O"],
             witnesses_required=["modified", "exit1"], sharded=True, timeout_s=900),
        Unit(name="c19.lint_routes_agree", functions=["Linter.lint_paths", "LintedDir.add", "LintingResult.as_records/stats"],
             bounds={"violation kinds/flags": "all"}, make=make_lint(), replay="concrete", witnesses_required=["violations"],
             sharded=True, timeout_s=900),
    ]
