"""C20 noqa directives suppress exactly the specified violations (mask application kernel)."""
from __future__ import annotations

import z3

from lib.runner import Unit
from symlite.values import NullLogger, SymInt, choose, fresh_bool, fresh_int, lift

import sqlfluff.core.rules.noqa as nq
from sqlfluff.core.errors import SQLBaseError
from sqlfluff.core.rules.noqa import IgnoreMask, NoQaDirective

KNOWN = {}
ACTIONS = [None, "disable", "enable"]
RULESETS = [None, ("A",), ("B",), ("A", "B")]
CODES = ["A", "B", "PRS"]


class V(SQLBaseError):
    def __init__(self, code, line):
        self._c = code
        super().__init__(description="d", line_no=line, line_pos=1)

    def rule_code(self):
        return self._c


def build(c, ND, NV, get_int):
    dirs, vios = [], []
    for i in range(ND):
        dirs.append(NoQaDirective(get_int(f"dline{i}", 1), 1, RULESETS[int(get_int(f"drules{i}", 0, 3))],
                                  ACTIONS[int(get_int(f"daction{i}", 0, 2))], raw_str=f"noqa{i}"))
    for j in range(NV):
        vios.append(V(CODES[int(get_int(f"vcode{j}", 0, 2))], get_int(f"vline{j}", 1)))
    return dirs, vios


def covers(d, v):
    return d.rules is None or v.rule_code() in d.rules


def reference(dirs, vios):
    """Independent reference model, as z3 formulas. Returns (hidden[j], used[i] or None when undefined)."""
    plain = [d for d in dirs if d.action is None]
    rng = [d for d in dirs if d.action is not None]
    hidden, plain_hit = [], {id(d): [] for d in plain}
    decider_hit = {id(d): [] for d in rng}
    for v in vios:
        # single-line directives: applied in list order; a violation is consumed by the FIRST matching directive
        taken = z3.BoolVal(False)
        for d in plain:
            m = z3.And(lift(d.line_no) == lift(v.line_no), z3.BoolVal(covers(d, v)))
            plain_hit[id(d)].append(z3.And(m, z3.Not(taken)))
            taken = z3.Or(taken, m)
        # range directives covering the rule: the most recent at or before the line decides (later in the list wins ties)
        cov = [d for d in rng if covers(d, v)]
        rhid = z3.BoolVal(False)
        for k, d in enumerate(cov):
            at_or_before = lift(d.line_no) <= lift(v.line_no)
            later = []
            for k2, d2 in enumerate(cov):
                if k2 == k:
                    continue
                # d2 supersedes d if it is at-or-before v and sorts after d (greater line, or equal line and later in list)
                after = z3.Or(lift(d2.line_no) > lift(d.line_no), z3.And(lift(d2.line_no) == lift(d.line_no), z3.BoolVal(k2 > k)))
                later.append(z3.And(lift(d2.line_no) <= lift(v.line_no), after))
            decides = z3.And(at_or_before, z3.Not(z3.Or(*later)) if later else z3.BoolVal(True))
            if d.action == "disable":
                rhid = z3.Or(rhid, decides)
                decider_hit[id(d)].append(z3.And(decides, z3.Not(taken)))
        hidden.append(z3.Or(taken, rhid))
    used = []
    for d in dirs:
        if d.action is None:
            used.append(z3.Or(*plain_hit[id(d)]) if plain_hit[id(d)] else z3.BoolVal(False))
        elif d.action == "disable":
            used.append(z3.Or(*decider_hit[id(d)]) if decider_hit[id(d)] else z3.BoolVal(False))
        else:
            used.append(None)  # "hid nothing" is not defined for an enable directive: nothing demanded
    return hidden, used


def make(ND, NV):
    def factory(excluded=frozenset()):
        nq.linter_logger = NullLogger()

        def harness(c):
            dirs, vios = build(c, ND, NV, lambda n, lo, hi=None: fresh_int(c, n, lo, hi))
            hidden, used = reference(dirs, vios)
            mask = IgnoreMask(list(dirs))
            kept = mask.ignore_masked_violations(list(vios))  # REAL
            warns = mask.generate_warnings_for_unused()        # REAL
            ok = z3.BoolVal(True)
            for j, v in enumerate(vios):
                is_kept = any(k is v for k in kept)
                ok = z3.And(ok, hidden[j] != z3.BoolVal(is_kept))
            if len([k for k in kept if not any(k is v for v in vios)]):
                return False
            for i, d in enumerate(dirs):
                if used[i] is None:
                    continue
                warned = any(lift(w.line_no) is lift(d.line_no) or w.description == f"Unused noqa: {d.raw_str!r}" for w in warns)
                ok = z3.And(ok, used[i] != z3.BoolVal(warned))
            if len(kept) < NV:
                c.witness("something_hidden")
            if warns:
                c.witness("unused_warning")
            if any(d.action == "enable" for d in dirs) and any(d.action == "disable" for d in dirs):
                c.witness("enable_and_disable")
            return ok
        return harness
    return factory


def make_off(NV):
    """Turning noqa processing off hides nothing: LintedFile.get_violations with an absent mask."""
    def factory(excluded=frozenset()):
        def harness(c):
            from sqlfluff.core.linter.linted_file import LintedFile
            vios = [V(CODES[int(fresh_int(c, f"vcode{j}", 0, 2))], fresh_int(c, f"vline{j}", 1)) for j in range(NV)]
            lf = LintedFile("p.sql", list(vios), None, None, None, None, "utf8")
            out = lf.get_violations(filter_ignore=True, filter_warning=False)
            return len(out) == NV and all(a is b for a, b in zip(out, vios))
        return harness
    return factory


def units(tier, seed):
    cfg = [(2, 1), (1, 2), (2, 2)] if tier == "quick" else [(2, 2), (3, 1), (3, 2), (2, 3)]
    us = [Unit(
        name=f"c20.mask[{nd} directives,{nv} violations]",
        functions=["sqlfluff.core.rules.noqa.IgnoreMask.ignore_masked_violations", "IgnoreMask._ignore_masked_violations_single_line",
                   "NoQaDirective._filter_violations_single_line", "IgnoreMask._ignore_masked_violations_line_range",
                   "IgnoreMask._should_ignore_violation_line_range", "IgnoreMask.generate_warnings_for_unused"],
        bounds={"directives": nd, "violations": nv, "line numbers": "unbounded (>=1)", "actions": ACTIONS, "rule sets": RULESETS, "codes": CODES},
        make=make(nd, nv), replay="concrete",
        stubs=["violations = SQLBaseError subclass with a fixed rule code; directives = real NoQaDirective objects"],
        assumptions=["reference model: plain directives consume a violation in list order; ties between range directives on one "
                     "line are broken by list order; 'unused' is not demanded of enable directives"],
        outside=["which comment segments the tree crawl yields", "_parse_noqa string parsing (see c20.parse units)"],
        witnesses_required=["something_hidden", "unused_warning"], sharded=True, timeout_s=300 if tier == "quick" else 1500)
        for nd, nv in cfg]
    us.append(Unit(name="c20.noqa_off[2 violations]", functions=["sqlfluff.core.linter.linted_file.LintedFile.get_violations"],
                   bounds={"violations": 2}, make=make_off(2), replay="concrete", sharded=False, timeout_s=60))
    return us


# ---------------------------------------------------------------- _parse_noqa: comment text -> directive

REFMAP = {"LT01": {"LT01"}, "LT02": {"LT02"}, "layout": {"LT01", "LT02"}, "AM04": {"AM04"}}
TOKENS = ["noqa", ":", " ", "disable=", "enable=", "all", "LT01", "LT*", "PRS", ",", "-- ", "x"]


def ref_parse(comment, refmap):
    """Reference parser written from the documented grammar (independent of the implementation).
    Returns None | "error" | (rules or None, action)."""
    import fnmatch
    last = comment.split("--")[-1].strip()
    if not last.startswith("noqa"):
        return None
    rest = last[4:]
    if not rest:
        return (None, None)
    if rest[0] != ":":
        return "error"
    rest = rest[1:].strip()
    if not rest:
        return (None, None)
    action = None
    if "=" in rest:
        action, _, rest = rest.partition("=")
        if action not in ("disable", "enable"):
            return "error"
    elif rest in ("disable", "enable"):
        return "error"
    if rest == "all":
        return (None, action)
    rules = set()
    for ref in (r.strip() for r in rest.split(",")):
        hits = [k for k in refmap if fnmatch.fnmatchcase(k, ref)]
        if hits:
            for k in hits:
                rules |= refmap[k]
        else:
            rules.add(ref)      # unmatched references still match the special codes (TMP / PRS / LXR) literally
    return (tuple(sorted(rules)), action)


def make_parse(n_tokens, prefix=""):
    toks = TOKENS if not prefix else [t for t in TOKENS if t not in ("noqa", "-- ", "x")]

    def factory(excluded=frozenset()):
        def harness(c):
            from sqlfluff.core.errors import SQLParseError
            n = int(fresh_int(c, "n_tokens", 1, n_tokens))
            comment = prefix + "".join(choose(c, f"tok{i}", toks) for i in range(n))
            got = IgnoreMask._parse_noqa(comment, 3, 7, {k: set(v) for k, v in REFMAP.items()})  # REAL
            exp = ref_parse(comment, REFMAP)
            if got is None:
                res = None
            elif isinstance(got, SQLParseError):
                res = "error"
                c.witness("malformed")
            else:
                res = (got.rules, got.action)
                c.witness("directive")
                if got.rules and len(got.rules) > 1:
                    c.witness("several_rules")
                if (got.line_no, got.line_pos) != (3, 7):
                    return False
            return res == exp
        return harness
    return factory


def replay_parse(n_tokens, prefix=""):
    toks = TOKENS if not prefix else [t for t in TOKENS if t not in ("noqa", "-- ", "x")]

    def rp(cex):
        from sqlfluff.core.errors import SQLParseError
        n = int(cex.get("n_tokens", 1))
        comment = prefix + "".join(toks[int(cex.get(f"tok{i}", 0))] for i in range(n))
        got = IgnoreMask._parse_noqa(comment, 3, 7, {k: set(v) for k, v in REFMAP.items()})
        res = None if got is None else "error" if isinstance(got, SQLParseError) else (got.rules, got.action)
        exp = ref_parse(comment, REFMAP)
        if res != exp:
            return f"comment {comment!r}: parsed as {res}, the documented grammar gives {exp} (reference map {sorted(REFMAP)})"
        return None
    return rp


_orig_units_c20 = units


def units(tier, seed):  # noqa: F811
    cfg = [(3, ""), (4, "noqa:")] if tier == "quick" else [(4, ""), (5, "noqa:"), (4, "x -- noqa: ")]
    return _orig_units_c20(tier, seed) + [Unit(
        name=f"c20.parse_noqa[{pre!r} + <= {n} tokens]", functions=["sqlfluff.core.rules.noqa.IgnoreMask._parse_noqa"],
        bounds={"comment": f"{pre!r} followed by every concatenation of <= {n} tokens from {TOKENS}", "reference map": sorted(REFMAP)},
        make=make_parse(n, pre), replay=replay_parse(n, pre),
        stubs=["none: real strings, real fnmatch; the token sequence is solver-forked"],
        outside=["comments outside this token alphabet", "block-comment marker stripping in _extract_ignore_from_comment"],
        witnesses_required=["directive"] + (["several_rules"] if pre else ["malformed"]), sharded=True,
        timeout_s=600 if tier == "quick" else 2400) for n, pre in cfg]


# ---------------------------------------------------------------- where a directive is anchored (from_tree, templated files)
COMMENTS = ["-- noqa: LT01", "/* noqa: disable=all */", "-- noqa"]


def make_location(K1, K2):
    """A noqa comment at an arbitrary offset of a file whose SOURCE and RENDERED texts have independent newline layouts:
    the directive must carry the comment's source line/column (violations are matched by source line)."""
    def factory(excluded=frozenset()):
        import sqlfluff.core.templaters.base as tb
        from harness import c31
        from symlite.values import NLStr, sym_len
        tb.len = sym_len

        def harness(c):
            from sqlfluff.core.parser.markers import PositionMarker
            from sqlfluff.core.parser.segments import CommentSegment
            from sqlfluff.core.templaters.base import TemplatedFile
            n1, ps1, s1 = c31._nlstr(c, K1, name="n_src")
            n2 = c.declare("n_tpl", z3.Int("n_tpl"))
            c.assume(n2 >= 0)
            ps2, prev = [], -1
            for i in range(K2):
                p = c.declare(f"t{i}", z3.Int(f"t{i}"))
                c.assume(z3.And(p > prev, p < n2))
                prev = p
                ps2.append(p)
            s2 = NLStr(n2, [SymInt(p) for p in ps2], [])
            tf = TemplatedFile(source_str="", fname="f")
            tf._source_newlines = list(tb.iter_indices_of_newlines(s1))
            tf._templated_newlines = list(tb.iter_indices_of_newlines(s2))
            text = choose(c, "comment", COMMENTS)
            a = fresh_int(c, "comment_source_offset", 0)
            ta = fresh_int(c, "comment_rendered_offset", 0)
            c.assume(a.e + len(text) <= n1)
            c.assume(ta.e + len(text) <= n2)
            pm = PositionMarker(slice(a, a + len(text)), slice(ta, ta + len(text)), tf)
            seg = CommentSegment(text, pm, instance_types=("block_comment" if text.startswith("/*") else "inline_comment",))
            d = IgnoreMask._extract_ignore_from_comment(seg, {"LT01": {"LT01"}})   # REAL
            if d is None or isinstance(d, SQLBaseError):
                return False
            cnt = z3.Sum([z3.If(p < a.e, 1, 0) for p in ps1]) if ps1 else z3.IntVal(0)
            last = z3.IntVal(-1)
            for p in ps1:
                last = z3.If(p < a.e, p, last)
            if K1 != K2:
                c.witness("layouts_differ")
            return z3.And(lift(d.line_no) == 1 + cnt, lift(d.line_pos) == a.e - last)
        return harness
    return factory


def replay_location(K1, K2):
    def rp(cex):
        import sqlfluff.core.templaters.base as tb
        from sqlfluff.core.parser.markers import PositionMarker
        from sqlfluff.core.parser.segments import CommentSegment
        from sqlfluff.core.templaters.base import RawFileSlice, TemplatedFile, TemplatedFileSlice
        if "len" in vars(tb):
            del tb.len
        text = COMMENTS[int(cex.get("comment", 0))]
        n1, n2 = int(cex["n_src"]), int(cex["n_tpl"])
        ps1 = [int(cex[f"p{i}"]) for i in range(K1)]
        ps2 = [int(cex[f"t{i}"]) for i in range(K2)]
        a, ta = int(cex.get("comment_source_offset", 0)), int(cex.get("comment_rendered_offset", 0))
        src = "".join("\n" if i in ps1 else "x" for i in range(n1))
        tpl = "".join("\n" if i in ps2 else "y" for i in range(n2))
        tf = TemplatedFile(source_str=src, fname="f", templated_str=tpl,
                           sliced_file=[TemplatedFileSlice("templated", slice(0, n1), slice(0, n2))], raw_sliced=[RawFileSlice(src, "templated", 0)])
        seg = CommentSegment(text, PositionMarker(slice(a, a + len(text)), slice(ta, ta + len(text)), tf),
                             instance_types=("block_comment" if text.startswith("/*") else "inline_comment",))
        d = IgnoreMask._extract_ignore_from_comment(seg, {"LT01": {"LT01"}})
        exp = (1 + src[:a].count("\n"), a - src.rfind("\n", 0, a))
        got = (d.line_no, d.line_pos) if d is not None and not isinstance(d, SQLBaseError) else None
        return None if got == exp else (f"comment {text!r} at source offset {a} (line/col {exp}) and rendered offset {ta} of a file whose source has "
                                        f"newlines at {ps1} and whose rendering has newlines at {ps2}: the directive is anchored at {got}")
    return rp


_units_with_parse = units


def units(tier, seed):  # noqa: F811
    ks = [(1, 0), (2, 1), (1, 2)] if tier == "quick" else [(a, b) for a in range(4) for b in range(4)]
    return _units_with_parse(tier, seed) + [Unit(
        name=f"c20.directive_location[source K={k1},rendered K={k2}]",
        functions=["sqlfluff.core.rules.noqa.IgnoreMask._extract_ignore_from_comment (from_tree)", "PositionMarker.source_position",
                   "TemplatedFile.get_line_pos_of_char_pos"],
        bounds={"newlines in source": k1, "newlines in rendering": k2, "offsets / lengths": "unbounded", "comment": COMMENTS},
        make=make_location(k1, k2), replay=replay_location(k1, k2),
        stubs=["two NLStr texts with independent newline layouts behind a real-constructed TemplatedFile; the comment is a real CommentSegment"],
        witnesses_required=(["layouts_differ"] if k1 != k2 else []), sharded=False, timeout_s=300) for k1, k2 in ks]
