"""C21 Rule selection is exact and rules are independent (selection kernel + rule loop independence)."""
from __future__ import annotations

import itertools

import z3

from lib.runner import Unit
from symlite.values import NullLogger, choose, fresh_bool, fresh_int

import sqlfluff.core.rules.base as rb
from sqlfluff.core.rules.base import RuleManifest, RuleSet

KNOWN = {}
CODES = ["AA01", "AA02", "BB01"]
NAMES = ["alpha.one", "alpha.two", "beta.one", "AA02"]          # "AA02" collides with a code
GROUPS = ["all", "core", "alpha.one"]                           # "alpha.one" collides with a name
ALIASES = ["L001", "core", "old"]                               # "core" collides with a group


class StubRule:
    name = ""

    def __init__(self, **kw):
        self.code = kw["code"]

    @classmethod
    def get_config_ref(cls):
        return cls.name or cls.__name__


class Cfg:
    def __init__(self, allow, deny):
        self.allow, self.deny = allow, deny

    def get_section(self, key):
        return {} if key == "rules" else None

    def get(self, key, section="core", default=None):
        return {"rule_allowlist": self.allow, "rule_denylist": self.deny}.get(key, default)


POOL = ["AA01", "alpha.one", "core", "L001", "AA*", "*.one", "zzz"]


def build(c, n_sel):
    """A register of 3 stub rules with forked names/groups/aliases (incl. collisions), forked allow/deny selectors."""
    reg = {}
    names = ["alpha.one", choose(c, "name1", ["alpha.two", "AA01"]), "beta.one"]   # "AA01" collides with a code
    alias_opts = [[None, "L001", "core"], [None, "L001"], [None]]                     # "core" collides with a group
    for i, code in enumerate(CODES):
        groups = ("all",) + (("core",) if bool(fresh_bool(c, f"core{i}")) else ())
        al = choose(c, f"alias{i}", alias_opts[i]) if len(alias_opts[i]) > 1 else None
        cls = type(f"Rule_{code}", (StubRule,), {"name": names[i]})
        reg[code] = RuleManifest(code, names[i], "desc", groups, (al,) if al else (), cls)
    allow = [choose(c, f"allow{j}", POOL) for j in range(int(fresh_int(c, "n_allow", 0, n_sel)))]
    deny = [choose(c, f"deny{j}", POOL) for j in range(int(fresh_int(c, "n_deny", 0, n_sel)))]
    return reg, allow, deny


def ref_map(reg):
    """Independent reference: code > name > group > alias."""
    codes = set(reg)
    out = {cd: {cd} for cd in codes}
    for m in reg.values():
        if m.name and m.name not in codes:
            out[m.name] = {m.code}
    taken = set(out)
    groups = {}
    for m in reg.values():
        for g in m.groups:
            if g not in taken:
                groups.setdefault(g, set()).add(m.code)
    out.update(groups)
    taken = set(out)
    aliases = {}
    for m in reg.values():
        for a in m.aliases:
            if a not in taken:
                aliases.setdefault(a, set()).add(m.code)
    out.update(aliases)
    return out


def make(n_sel):
    def factory(excluded=frozenset()):
        rb.rules_logger = NullLogger()

        def harness(c):
            reg, allow, deny = build(c, n_sel)
            rs = RuleSet("stub", config_info={})
            rs._register = reg
            import fnmatch as fm
            pack = rs.get_rulepack(Cfg(allow, deny))  # REAL
            got = sorted(r.code for r in pack.rules)
            rm = ref_map(reg)
            if pack.reference_map != rm:
                return False

            def expand(sels):
                out = set()
                for s in sels:
                    if s in rm:
                        out |= rm[s]
                    else:
                        for k in rm:
                            if fm.fnmatchcase(k, s):
                                out |= rm[k]
                return out
            a = expand(allow) if allow else set(reg)
            exp = sorted(cd for cd in reg if cd in a and cd not in expand(deny))
            if deny:
                c.witness("deny_used")
            if any("*" in s for s in allow + deny):
                c.witness("glob_used")
            if len(got) not in (0, 3):
                c.witness("partial_selection")
            return got == exp
        return harness
    return factory


# ---------------------------------------------------------------- glob selectors, token by token
G_TOKENS = ["A", "B", "0", "1", "*", "?", "[AB]", "."]
G_RULES = [("AA01", "A.A0", ("all", "A"), ()), ("AB01", "A.B1", ("all", "A"), ("B0",)), ("BB10", "B.A1", ("all",), ("L0",))]


def g_registry():
    reg = {}
    for code, name, groups, aliases in G_RULES:
        cls = type(f"Rule_{code}", (StubRule,), {"name": name})
        reg[code] = RuleManifest(code, name, "desc", groups, aliases, cls)
    return reg


def g_expected(reg, sel, as_deny):
    import fnmatch as fm
    rm = ref_map(reg)
    if sel in rm:
        hit = set(rm[sel])
    else:
        hit = set()
        for k in rm:
            if fm.fnmatchcase(k, sel):
                hit |= rm[k]
    return sorted(cd for cd in reg if (cd not in hit if as_deny else cd in hit))


def make_globs(n_tok):
    def factory(excluded=frozenset()):
        rb.rules_logger = NullLogger()

        def harness(c):
            n = int(fresh_int(c, "n_tokens", 1, n_tok))
            sel = "".join(choose(c, f"g{i}", G_TOKENS) for i in range(n))
            as_deny = bool(fresh_bool(c, "selector_is_exclusion"))
            reg = g_registry()
            rs = RuleSet("stub", config_info={})
            rs._register = reg
            pack = rs.get_rulepack(Cfg([] if as_deny else [sel], [sel] if as_deny else []))  # REAL
            got = sorted(r.code for r in pack.rules)
            exp = g_expected(reg, sel, as_deny)
            if ("?" in sel or "[" in sel) and "*" in sel and len(exp) not in (0, 3):
                c.witness("class_or_qmark_with_star_partial")
            if "*" in sel and len(exp) not in (0, 3):
                c.witness("star_partial")
            return got == exp
        return harness
    return factory


def replay_globs(cex):
    n = int(cex.get("n_tokens", 1))
    sel = "".join(G_TOKENS[int(cex.get(f"g{i}", 0))] for i in range(n))
    as_deny = bool(cex.get("selector_is_exclusion"))
    reg = g_registry()
    rs = RuleSet("stub", config_info={})
    rs._register = reg
    got = sorted(r.code for r in rs.get_rulepack(Cfg([] if as_deny else [sel], [sel] if as_deny else [])).rules)
    exp = g_expected(reg, sel, as_deny)
    return None if got == exp else (f"{'exclude_rules' if as_deny else 'rules'}={sel!r} over rules {[(r[0], r[1], r[2], r[3]) for r in G_RULES]}: "
                                    f"runs {got}, the glob matches {exp}")


# ---------------------------------------------------------------- independence of rules in the lint loop

def make_independence():
    """lint_fix_parsed(fix=False) with recording stub crawlers: every rule sees the same tree object, and the
    violations reported are the concatenation of each rule's own violations whatever other rules are enabled."""
    def factory(excluded=frozenset()):
        def harness(c):
            from sqlfluff.core import FluffConfig, Linter
            from sqlfluff.core.errors import SQLLintError
            from sqlfluff.core.rules.base import RulePack
            enabled = [bool(fresh_bool(c, f"on{i}")) for i in range(3)]
            lin = Linter(config=FluffConfig(overrides={"dialect": "ansi"}))
            tree = lin.parse_string("SELECT 1\n").tree
            seen = []

            class R:
                lint_phase = "main"
                is_fix_compatible = False
                groups = ("all",)

                def __init__(self, code):
                    self.code, self.name = code, code.lower()
                    self.aliases = ()

                def crawl(self, t, dialect, fix, templated_file, ignore_mask, fname, config):
                    seen.append((self.code, t))
                    seg = t.raw_segments[0]
                    return [SQLLintError(f"v-{self.code}", seg, self)], tuple(t.raw_segments[:1]), [], None
            rules = [R(cd) for cd, on in zip(["R1", "R2", "R3"], enabled) if on]
            pack = RulePack(rules, {r.code: {r.code} for r in rules})
            out_tree, vs, mask, linted = lin.lint_fix_parsed(tree, config=lin.config, rule_pack=pack, fix=False)
            ok = all(t is tree for _, t in seen) and [v.rule.code for v in vs] == [r.code for r in rules] and out_tree is tree
            if len(rules) >= 2:
                c.witness("two_rules")
            return ok
        return harness
    return factory


def units(tier, seed):
    us = [Unit(
        name=f"c21.selection[<= {n} allow, <= {n} deny selectors]",
        functions=["sqlfluff.core.rules.base.RuleSet.get_rulepack", "RuleSet._expand_rule_refs", "RuleSet.rule_reference_map"],
        bounds={"rules": 3, "allow/deny selectors": n, "names/groups/aliases": "forked from pools with collisions",
                "glob selectors": "AA*, *.one (real fnmatch)"},
        make=make(n), replay="concrete",
        stubs=["config -> stub with allow/deny lists", "rules -> stub classes"],
        outside=["FluffConfig._handle_comma_separated_values string splitting"],
        witnesses_required=["deny_used", "glob_used", "partial_selection"], sharded=True,
        timeout_s=300 if tier == "quick" else 1500) for n in ([1] if tier == "quick" else [1, 2])]
    nt = 3 if tier == "quick" else 4
    us.append(Unit(
        name=f"c21.glob_selectors[<= {nt} tokens]", functions=["sqlfluff.core.rules.base.RuleSet._expand_rule_refs", "RuleSet.get_rulepack"],
        bounds={"selector": f"1..{nt} tokens from {G_TOKENS}", "used as": "rules / exclude_rules", "rules": [r[0] + "/" + r[1] for r in G_RULES]},
        make=make_globs(nt), replay=replay_globs,
        stubs=["config -> stub with allow/deny lists", "rules -> stub classes"],
        assumptions=["reference: fnmatch.fnmatchcase per reference-map key (the documented glob semantics)"],
        witnesses_required=["class_or_qmark_with_star_partial", "star_partial"], sharded=True, timeout_s=600 if tier == "quick" else 2400))
    us.append(Unit(
        name="c21.rule_independence[3 rules]", functions=["sqlfluff.core.linter.linter.Linter.lint_fix_parsed (lint mode rule loop)"],
        bounds={"rules": 3, "enabled subsets": "all 8"}, make=make_independence(), replay="concrete",
        stubs=["crawlers -> recording stubs returning one violation each"],
        assumptions=["a crawl does not mutate the tree (not checked)"], witnesses_required=["two_rules"], sharded=False, timeout_s=120))
    return us


# ---------------------------------------------------------------- selector strings -> selector lists (FluffConfig)

SEL_TOKENS = ["LT01", "AM*", "core", ",", " ", "\n"]


def make_comma(n_tokens):
    def factory(excluded=frozenset()):
        def harness(c):
            from sqlfluff.core import FluffConfig
            n = int(fresh_int(c, "n_tokens", 0, n_tokens))
            raw = "".join(choose(c, f"t{i}", SEL_TOKENS) for i in range(n))
            key = choose(c, "config_key", ["rules", "exclude_rules", "warnings", "ignore"])
            other = choose(c, "other_value", [None, "AL01"])
            overrides = {"dialect": "ansi", key: raw}
            other_key = "exclude_rules" if key == "rules" else "rules"
            if other:
                overrides[other_key] = other
            cfg = FluffConfig(overrides=overrides)  # REAL (runs _handle_comma_separated_values)
            out_key = {"rules": "rule_allowlist", "exclude_rules": "rule_denylist"}.get(key, key)
            exp = [p.strip() for p in raw.split(",") if p.strip()]
            got = cfg.get(out_key)
            other_out = {"rules": "rule_allowlist", "exclude_rules": "rule_denylist"}[other_key]
            if len(exp) >= 2:
                c.witness("several_selectors")
            default_other = ["all"] if other_key == "rules" else []   # built-in defaults: rules = all, exclude_rules unset
            return got == exp and cfg.get(other_out) == ([other] if other else default_other)
        return harness
    return factory


_orig_units_c21 = units


def units(tier, seed):  # noqa: F811
    n = 4 if tier == "quick" else 5
    return _orig_units_c21(tier, seed) + [Unit(
        name=f"c21.selector_lists[<= {n} tokens]",
        functions=["sqlfluff.core.config.fluffconfig.FluffConfig._handle_comma_separated_values", "sqlfluff.core.helpers.string.split_comma_separated_string"],
        bounds={"selector string": f"every concatenation of <= {n} tokens from {SEL_TOKENS}", "keys": "rules / exclude_rules / warnings / ignore"},
        make=make_comma(n), replay="concrete", witnesses_required=["several_selectors"], sharded=True, timeout_s=600 if tier == "quick" else 1800)]
