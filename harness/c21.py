"""C21 Rule selection is exact and rules are independent (selection kernel + rule loop independence)."""
from __future__ import annotations

import itertools

import z3

from lib.runner import Unit
from symlite.values import NullLogger, choose, fresh_bool, fresh_int

import sqlfluff.core.rules.base as rb
from sqlfluff.core.rules.base import RuleManifest, RuleSet

KNOWN = {}
CODES = ["AA01", "AA02", "BB01"]
NAMES = ["alpha.one", "alpha.two", "beta.one", "AA02"]          # "AA02" collides with a code
GROUPS = ["all", "core", "alpha.one"]                           # "alpha.one" collides with a name
ALIASES = ["L001", "core", "old"]                               # "core" collides with a group


class StubRule:
    name = ""

    def __init__(self, **kw):
        self.code = kw["code"]

    @classmethod
    def get_config_ref(cls):
        return cls.name or cls.__name__


class Cfg:
    def __init__(self, allow, deny):
        self.allow, self.deny = allow, deny

    def get_section(self, key):
        return {} if key == "rules" else None

    def get(self, key, section="core", default=None):
        return {"rule_allowlist": self.allow, "rule_denylist": self.deny}.get(key, default)


POOL = ["AA01", "alpha.one", "core", "L001", "AA*", "*.one", "zzz"]


def build(c, n_sel):
    """A register of 3 stub rules with forked names/groups/aliases (incl. collisions), forked allow/deny selectors."""
    reg = {}
    names = ["alpha.one", choose(c, "name1", ["alpha.two", "AA01"]), "beta.one"]   # "AA01" collides with a code
    alias_opts = [[None, "L001", "core"], [None, "L001"], [None]]                     # "core" collides with a group
    for i, code in enumerate(CODES):
        groups = ("all",) + (("core",) if bool(fresh_bool(c, f"core{i}")) else ())
        al = choose(c, f"alias{i}", alias_opts[i]) if len(alias_opts[i]) > 1 else None
        cls = type(f"Rule_{code}", (StubRule,), {"name": names[i]})
        reg[code] = RuleManifest(code, names[i], "desc", groups, (al,) if al else (), cls)
    allow = [choose(c, f"allow{j}", POOL) for j in range(int(fresh_int(c, "n_allow", 0, n_sel)))]
    deny = [choose(c, f"deny{j}", POOL) for j in range(int(fresh_int(c, "n_deny", 0, n_sel)))]
    return reg, allow, deny


def ref_map(reg):
    """Independent reference: code > name > group > alias."""
    codes = set(reg)
    out = {cd: {cd} for cd in codes}
    for m in reg.values():
        if m.name and m.name not in codes:
            out[m.name] = {m.code}
    taken = set(out)
    groups = {}
    for m in reg.values():
        for g in m.groups:
            if g not in taken:
                groups.setdefault(g, set()).add(m.code)
    out.update(groups)
    taken = set(out)
    aliases = {}
    for m in reg.values():
        for a in m.aliases:
            if a not in taken:
                aliases.setdefault(a, set()).add(m.code)
    out.update(aliases)
    return out


def make(n_sel):
    def factory(excluded=frozenset()):
        rb.rules_logger = NullLogger()

        def harness(c):
            reg, allow, deny = build(c, n_sel)
            rs = RuleSet("stub", config_info={})
            rs._register = reg
            import fnmatch as fm
            pack = rs.get_rulepack(Cfg(allow, deny))  # REAL
            got = sorted(r.code for r in pack.rules)
            rm = ref_map(reg)
            if pack.reference_map != rm:
                return False

            def expand(sels):
                out = set()
                for s in sels:
                    if s in rm:
                        out |= rm[s]
                    else:
                        for k in rm:
                            if fm.fnmatchcase(k, s):
                                out |= rm[k]
                return out
            a = expand(allow) if allow else set(reg)
            exp = sorted(cd for cd in reg if cd in a and cd not in expand(deny))
            if deny:
                c.witness("deny_used")
            if any("*" in s for s in allow + deny):
                c.witness("glob_used")
            if len(got) not in (0, 3):
                c.witness("partial_selection")
            return got == exp
        return harness
    return factory


# ---------------------------------------------------------------- independence of rules in the lint loop

def make_independence():
    """lint_fix_parsed(fix=False) with recording stub crawlers: every rule sees the same tree object, and the
    violations reported are the concatenation of each rule's own violations whatever other rules are enabled."""
    def factory(excluded=frozenset()):
        def harness(c):
            from sqlfluff.core import FluffConfig, Linter
            from sqlfluff.core.errors import SQLLintError
            from sqlfluff.core.rules.base import RulePack
            enabled = [bool(fresh_bool(c, f"on{i}")) for i in range(3)]
            lin = Linter(config=FluffConfig(overrides={"dialect": "ansi"}))
            tree = lin.parse_string("SELECT 1\n").tree
            seen = []

            class R:
                lint_phase = "main"
                is_fix_compatible = False
                groups = ("all",)

                def __init__(self, code):
                    self.code, self.name = code, code.lower()
                    self.aliases = ()

                def crawl(self, t, dialect, fix, templated_file, ignore_mask, fname, config):
                    seen.append((self.code, t))
                    seg = t.raw_segments[0]
                    return [SQLLintError(f"v-{self.code}", seg, self)], tuple(t.raw_segments[:1]), [], None
            rules = [R(cd) for cd, on in zip(["R1", "R2", "R3"], enabled) if on]
            pack = RulePack(rules, {r.code: {r.code} for r in rules})
            out_tree, vs, mask, linted = lin.lint_fix_parsed(tree, config=lin.config, rule_pack=pack, fix=False)
            ok = all(t is tree for _, t in seen) and [v.rule.code for v in vs] == [r.code for r in rules] and out_tree is tree
            if len(rules) >= 2:
                c.witness("two_rules")
            return ok
        return harness
    return factory


def units(tier, seed):
    us = [Unit(
        name=f"c21.selection[<= {n} allow, <= {n} deny selectors]",
        functions=["sqlfluff.core.rules.base.RuleSet.get_rulepack", "RuleSet._expand_rule_refs", "RuleSet.rule_reference_map"],
        bounds={"rules": 3, "allow/deny selectors": n, "names/groups/aliases": "forked from pools with collisions",
                "glob selectors": "AA*, *.one (real fnmatch)"},
        make=make(n), replay="concrete",
        stubs=["config -> stub with allow/deny lists", "rules -> stub classes"],
        outside=["FluffConfig._handle_comma_separated_values string splitting"],
        witnesses_required=["deny_used", "glob_used", "partial_selection"], sharded=True,
        timeout_s=300 if tier == "quick" else 1500) for n in ([1] if tier == "quick" else [1, 2])]
    us.append(Unit(
        name="c21.rule_independence[3 rules]", functions=["sqlfluff.core.linter.linter.Linter.lint_fix_parsed (lint mode rule loop)"],
        bounds={"rules": 3, "enabled subsets": "all 8"}, make=make_independence(), replay="concrete",
        stubs=["crawlers -> recording stubs returning one violation each"],
        assumptions=["a crawl does not mutate the tree (not checked)"], witnesses_required=["two_rules"], sharded=False, timeout_s=120))
    return us
