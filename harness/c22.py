"""C22 Exit codes reflect only unsuppressed failures."""
from __future__ import annotations

from lib.runner import Unit
from symlite.values import fresh_bool, fresh_int

from harness import outcome as oc

KNOWN = {}


def expected_fix_exit(descs, feu):
    """1 / 0 / None (statement does not determine it)."""
    fail = False
    undetermined = False
    for d in descs:
        live_tp = any(k in ("TMP", "PRS") and not ig and not wa for k, ig, wa in d)
        blocked = (not feu) and oc.has_tmp_prs(d)
        if live_tp and not feu:
            fail = True                       # a templating/parsing error blocks fixing and is not suppressed
        if live_tp and feu:
            undetermined = True               # with --FIX-EVEN-UNPARSABLE the statement is silent about a live PRS/TMP error
        if any(k == "LINT_NOFIX" for k, ig, wa in oc.live(d)):
            fail = True                       # an unsuppressed, non-warning violation remains unfixable
        if blocked and any(k == "LINT_FIX" for k, ig, wa in oc.live(d)):
            fail = True                       # its fix is discarded, so it remains unfixable
    if fail:
        return 1
    return None if undetermined else 0


def make_lint(n_files):
    def factory(excluded=frozenset()):
        def harness(c):
            files, descs = zip(*[oc.sym_file(c, f"f{i}", f"d/f{i}.sql", 4) for i in range(n_files)])
            nofail = bool(fresh_bool(c, "nofail"))
            code = oc.run_lint(list(files), nofail)  # REAL LintedDir.add + LintingResult.stats
            exp = 0 if nofail else int(any(oc.live(d) for d in descs))
            if code == 1:
                c.witness("exit1")
            if any(d and not oc.live(d) for d in descs):
                c.witness("only_suppressed_or_warning")
            return code == exp
        return harness
    return factory


def make_fix_paths(n_files):
    def factory(excluded=frozenset()):
        def harness(c):
            feu = bool(fresh_bool(c, "fix_even_unparsable"))
            files, descs = zip(*[oc.sym_file(c, f"f{i}", f"d/f{i}.sql", 4) for i in range(n_files)])
            code, _ = oc.run_paths_fix(list(files), feu)  # REAL
            exp = expected_fix_exit(descs, feu)
            if code == 1:
                c.witness("exit1")
            if code == 0:
                c.witness("exit0")
            return exp is None or code == exp
        return harness
    return factory


def make_fix_stdin():
    def factory(excluded=frozenset()):
        def harness(c):
            feu = bool(fresh_bool(c, "fix_even_unparsable"))
            f, d = oc.sym_file(c, "f0", "stdin", 4)
            if "F21" in excluded and _f21_pattern(d, feu):
                from symlite.core import Abort
                raise Abort()
            code, _ = oc.run_stdin_fix(f, feu)  # REAL
            exp = expected_fix_exit([d], feu)
            if code == 1:
                c.witness("exit1")
            if code == 0:
                c.witness("exit0")
            return exp is None or code == exp
        return harness
    return factory


def _f21_pattern(d, feu):
    """known finding F21: via stdin, a file whose TMP/PRS errors are all suppressed (or warnings) and which has a live
    fixable violation exits 0, although that violation's fix was discarded (the same file given by path exits 1)."""
    return (not feu) and oc.has_tmp_prs(d) and not any(k in ("TMP", "PRS") and not ig and not wa for k, ig, wa in d) \
        and any(k == "LINT_FIX" for k, ig, wa in oc.live(d)) and not any(k == "LINT_NOFIX" for k, ig, wa in oc.live(d))


def replay_fix_stdin(cex):
    d = desc_of(cex)
    feu = bool(cex.get("fix_even_unparsable"))
    exp = expected_fix_exit([d], feu)

    def once():
        code, changed, sql = oc.cli_fix_stdin(d, feu)
        if exp is not None and code != exp:
            return f"`sqlfluff fix -` (stdin) exits {code}, expected {exp}, on {sql!r} (violations (kind, suppressed, warning): {d}, fix_even_unparsable={feu})"
        return None
    return oc.each_style(once)


def known_f21(entry):
    return replay_fix_stdin(entry["replay"]["model"])


def desc_of(cex, prefix="f0"):
    return [(k, bool(cex.get(f"{prefix}_{k}_ignored")), bool(cex.get(f"{prefix}_{k}_warning"))) for k in oc.KINDS if cex.get(f"{prefix}_{k}")]


def replay_fix(cex):
    d = desc_of(cex)
    feu = bool(cex.get("fix_even_unparsable"))
    exp = expected_fix_exit([d], feu)

    def once():
        code, changed, sql, out = oc.cli_fix_on_disk(d, feu)
        if exp is not None and code != exp:
            return f"`sqlfluff fix` exits {code}, expected {exp}, on {sql!r} (violations (kind, suppressed, warning): {d}, fix_even_unparsable={feu})"
        return None
    return oc.each_style(once)


def replay_lint(cex):
    d = desc_of(cex)
    exp = int(bool(oc.live(d)))

    def once():
        code, sql, out = oc.cli_lint_on_disk(d)
        if code != exp and not cex.get("nofail"):
            return f"`sqlfluff lint` exits {code}, expected {exp}, on {sql!r} (violations {d})"
        return None
    return oc.each_style(once)


def known_f20(entry):
    return replay_fix(entry["replay"]["model"])


KNOWN = {"F21": known_f21}


def units(tier, seed):
    return [u for u in _units(tier) if tier == "thorough" or "2 files" not in u.name]


def _units(tier):
    return [
        Unit(name="c22.lint_exit[1 file]", functions=["sqlfluff.core.linter.linting_result.LintingResult.stats", "LintedDir.add/stats", "LintedFile.num_violations/is_clean"],
             bounds={"files": 1, "kinds/flags": "all"}, make=make_lint(1), replay=replay_lint,
             witnesses_required=["exit1", "only_suppressed_or_warning"], sharded=True, timeout_s=600),
        Unit(name="c22.lint_exit[2 files]", functions=["LintingResult.stats"], bounds={"files": 2}, make=make_lint(2), replay="concrete",
             sharded=True, timeout_s=900),
        Unit(name="c22.fix_paths_exit[1 file]", functions=["sqlfluff.cli.commands._paths_fix", "_handle_unparsable", "LintedDir.add/discard_fixes_…"],
             bounds={"files": 1, "kinds/flags": "all", "fix_even_unparsable": "both"}, make=make_fix_paths(1), replay=replay_fix,
             stubs=["as C18"], assumptions=["with --FIX-EVEN-UNPARSABLE and a live TMP/PRS error the statement does not determine the exit code"],
             witnesses_required=["exit1", "exit0"], sharded=True, timeout_s=600),
        Unit(name="c22.fix_stdin_exit", functions=["sqlfluff.cli.commands._stdin_fix", "_handle_unparsable"],
             bounds={"kinds/flags": "all"}, make=make_fix_stdin(), replay=replay_fix_stdin,
             witnesses_required=["exit1", "exit0"], sharded=True, timeout_s=600),
    ]
