"""C23 Reported violation positions are accurate (position kernel)."""
import z3

from lib.runner import Unit
from symlite.values import AbsStr, NLStr, SymInt, choose, fresh_bool, fresh_int, lift, sym_len

import sqlfluff.core.templaters.base as tb
from sqlfluff.core.errors import SQLBaseError, SQLLintError, SQLParseError
from sqlfluff.core.parser.markers import PositionMarker
from sqlfluff.core.parser.segments.base import SourceFix
from sqlfluff.core.parser.segments.raw import RawSegment
from sqlfluff.core.rules.fix import LintFix
from sqlfluff.core.templaters.base import RawFileSlice, TemplatedFile

KNOWN = {}


class _Rule:
    code = "ZZ01"
    name = "zz.stub"


def _file(c, K, shape, J=0):
    """Symbolic source: K newlines at symbolic positions, raw slices of the given type shape with symbolic bounds."""
    tb.len = sym_len
    n = c.declare("n", z3.Int("n"))
    c.assume(n >= 0)
    ps, prev = [], -1
    for i in range(K):
        p = c.declare(f"p{i}", z3.Int(f"p{i}"))
        c.assume(z3.And(p > prev, p < n))
        prev = p
        ps.append(p)
    qs, prev = [], -1
    for j in range(J):   # characters str.splitlines() treats as line boundaries but which are not newlines (form feed...)
        q = c.declare(f"q{j}", z3.Int(f"q{j}"))
        c.assume(z3.And(q > prev, q < n, *[q != p for p in ps]))
        prev = q
        qs.append(q)
    src = NLStr(n, [SymInt(p) for p in ps], [SymInt(q) for q in qs])
    tf = TemplatedFile(source_str="", fname="f")   # REAL constructor, fields then replaced by the abstract file
    tf.source_str = src
    tf.templated_str = src
    tf.fname = "f"
    nls = list(tb.iter_indices_of_newlines(src))
    tf._source_newlines = nls
    tf._templated_newlines = nls
    raw, pos = [], SymInt(z3.IntVal(0))
    for i, t in enumerate(shape):
        ln = fresh_int(c, f"rl{i}", 0)
        raw.append(RawFileSlice(AbsStr(ln), {"L": "literal", "T": "templated"}[t], pos))
        pos = pos + ln
    c.assume(pos.e == n)
    tf.raw_sliced = raw
    tf.sliced_file = []
    return tf, n, ps


def _ref(ps, off):
    cnt = z3.Sum([z3.If(p < off, 1, 0) for p in ps]) if ps else z3.IntVal(0)
    last = z3.IntVal(-1)
    for p in ps:
        last = z3.If(p < off, p, last)
    return 1 + cnt, off - last


def _marker(c, tf, n, tag):
    a = fresh_int(c, f"{tag}_a", 0)
    b = fresh_int(c, f"{tag}_b")
    c.assume(z3.And(a.e <= b.e, b.e <= n))
    ta = fresh_int(c, f"{tag}_ta", 0)
    tb_ = fresh_int(c, f"{tag}_tb")
    c.assume(z3.And(ta.e <= tb_.e, tb_.e <= n))
    return PositionMarker(slice(a, b), slice(ta, tb_), tf), a, b


def _check_dict(d, ps, n, start=None, end=None):
    """Oracle for one serialised position dict (all keys optional except the start line/pos)."""
    K = len(ps)
    ok = z3.And(lift(d["start_line_no"]) >= 1, lift(d["start_line_no"]) <= K + 1, lift(d["start_line_pos"]) >= 1)
    if "start_file_pos" in d:
        sl, sc = _ref(ps, lift(d["start_file_pos"]))
        ok = z3.And(ok, lift(d["start_file_pos"]) >= 0, lift(d["start_file_pos"]) <= n,
                    lift(d["start_line_no"]) == sl, lift(d["start_line_pos"]) == sc)
        if start is not None:
            ok = z3.And(ok, lift(d["start_file_pos"]) == lift(start))
    if "end_file_pos" in d:
        el, ec = _ref(ps, lift(d["end_file_pos"]))
        ok = z3.And(ok, lift(d["end_file_pos"]) >= 0, lift(d["end_file_pos"]) <= n,
                    lift(d["end_line_no"]) == el, lift(d["end_line_pos"]) == ec,
                    lift(d["end_file_pos"]) >= lift(d["start_file_pos"]))
        if end is not None:
            ok = z3.And(ok, lift(d["end_file_pos"]) == lift(end))
    return ok


EDIT_TYPES = ["delete", "replace", "create_before", "create_after", "replace_source_only"]


def make(K, shape, n_fixes, err_kind, J=0):
    def factory(excluded=frozenset()):
        def harness(c):
            tf, n, ps = _file(c, K, shape, J)
            pm, a, b = _marker(c, tf, n, "seg")
            seg = RawSegment("x", pos_marker=pm)
            fixes, fix_expect = [], []
            for i in range(n_fixes):
                fpm, fa, fb = _marker(c, tf, n, f"fx{i}")
                et = choose(c, f"fx{i}_type", EDIT_TYPES)
                if et == "replace_source_only":
                    sa = fresh_int(c, f"fx{i}_sa", 0)
                    sb = fresh_int(c, f"fx{i}_sb")
                    c.assume(z3.And(sa.e <= sb.e, sb.e <= n))
                    anchor = RawSegment("x", pos_marker=fpm)
                    edit = RawSegment("x", source_fixes=[SourceFix("y", slice(sa, sb), slice(fa, fa))])
                    fixes.append(LintFix("replace", anchor, [edit]))
                    fix_expect.append((sa, sb))
                else:
                    anchor = RawSegment("x", pos_marker=fpm)
                    edit = None if et == "delete" else [RawSegment("new")]
                    fixes.append(LintFix(et, anchor, edit))
                    fix_expect.append({"delete": (fa, fb), "replace": (fa, fb), "create_before": (fa, fa),
                                       "create_after": (fb, fb)}[et])
            if err_kind == "lint":
                err = SQLLintError("d", seg, _Rule(), fixes=fixes)
            elif err_kind == "parse":
                err = SQLParseError("d", segment=seg)
            else:
                err = SQLBaseError("d", pos=pm)
            rl, rc = _ref(ps, a.e)
            ok = z3.And(lift(err.line_no) == rl, lift(err.line_pos) == rc)
            d = err.to_dict()
            ok = z3.And(ok, lift(d["start_line_no"]) == rl, lift(d["start_line_pos"]) == rc)
            if "end_file_pos" in d and "fixes" in d and len(d["fixes"]) == 1 and "start_file_pos" in d:
                pass
            ok = z3.And(ok, _check_dict(d, ps, n))
            if "start_file_pos" in d:
                c.witness("has_file_pos")
            else:
                c.witness("no_file_pos")
            for fd, (es, ee) in zip(d.get("fixes", []), fix_expect):
                ok = z3.And(ok, _check_dict(fd, ps, n, es, ee), z3.BoolVal("start_file_pos" in fd and "end_file_pos" in fd))
                c.witness("fix_" + fd["type"])
            return ok
        return harness
    return factory


def replay(K, shape, n_fixes, err_kind, J=0):
    def rp(cex):
        if "len" in vars(tb):
            del tb.len
        n = int(cex["n"])
        ps = [int(cex[f"p{i}"]) for i in range(K)]
        qs = [int(cex[f"q{j}"]) for j in range(J)]
        text = "".join("\n" if i in ps else "\x0c" if i in qs else "x" for i in range(n))
        tf = TemplatedFile.from_string(text)
        raw, pos = [], 0
        for i, t in enumerate(shape):
            ln = int(cex.get(f"rl{i}", 0))
            raw.append(RawFileSlice(text[pos:pos + ln], {"L": "literal", "T": "templated"}[t], pos))
            pos += ln
        tf.raw_sliced = raw

        def ref(off):
            return (1 + text[:off].count("\n"), off - text.rfind("\n", 0, off))

        def mk(tag):
            a, b = int(cex[f"{tag}_a"]), int(cex[f"{tag}_b"])
            return PositionMarker(slice(a, b), slice(int(cex[f"{tag}_ta"]), int(cex[f"{tag}_tb"])), tf), a, b

        pm, a, b = mk("seg")
        seg = RawSegment("x", pos_marker=pm)
        fixes, expect = [], []
        for i in range(n_fixes):
            fpm, fa, fb = mk(f"fx{i}")
            et = EDIT_TYPES[int(cex.get(f"fx{i}_type", 0))]
            if et == "replace_source_only":
                sa, sb = int(cex[f"fx{i}_sa"]), int(cex[f"fx{i}_sb"])
                fixes.append(LintFix("replace", RawSegment("x", pos_marker=fpm),
                                     [RawSegment("x", source_fixes=[SourceFix("y", slice(sa, sb), slice(fa, fa))])]))
                expect.append((sa, sb))
            else:
                fixes.append(LintFix(et, RawSegment("x", pos_marker=fpm), None if et == "delete" else [RawSegment("new")]))
                expect.append({"delete": (fa, fb), "replace": (fa, fb), "create_before": (fa, fa), "create_after": (fb, fb)}[et])
        err = (SQLLintError("d", seg, _Rule(), fixes=fixes) if err_kind == "lint"
               else SQLParseError("d", segment=seg) if err_kind == "parse" else SQLBaseError("d", pos=pm))
        d = err.to_dict()
        problems = []

        def chk(dd, label, es=None, ee=None):
            if (dd["start_line_no"], dd["start_line_pos"]) != ref(dd.get("start_file_pos", es if es is not None else a)) and "start_file_pos" in dd:
                problems.append(f"{label}: start ({dd['start_line_no']},{dd['start_line_pos']}) != position of offset {dd['start_file_pos']} = {ref(dd['start_file_pos'])}")
            if "end_file_pos" in dd and (dd["end_line_no"], dd["end_line_pos"]) != ref(dd["end_file_pos"]):
                problems.append(f"{label}: end ({dd['end_line_no']},{dd['end_line_pos']}) != position of offset {dd['end_file_pos']} = {ref(dd['end_file_pos'])}")
            if es is not None and (dd.get("start_file_pos"), dd.get("end_file_pos")) != (es, ee):
                problems.append(f"{label}: offsets ({dd.get('start_file_pos')},{dd.get('end_file_pos')}) expected ({es},{ee})")
            if not (1 <= dd["start_line_no"] <= K + 1 and dd["start_line_pos"] >= 1):
                problems.append(f"{label}: line/col outside the file: {dd['start_line_no']},{dd['start_line_pos']}")

        if (err.line_no, err.line_pos) != ref(a) or (d["start_line_no"], d["start_line_pos"]) != ref(a):
            problems.append(f"violation at source offset {a} reported at ({err.line_no},{err.line_pos}), expected {ref(a)}")
        chk(d, "violation")
        for fd, (es, ee) in zip(d.get("fixes", []), expect):
            chk(fd, "fix " + fd["type"], es, ee)
        return (f"text={text!r} raw={[(r.slice_type, r.source_idx) for r in raw]}: " + "; ".join(problems)) if problems else None
    return rp


FUNCS = ["sqlfluff.core.templaters.base.iter_indices_of_newlines",
         "sqlfluff.core.templaters.base.TemplatedFile.get_line_pos_of_char_pos",
         "sqlfluff.core.templaters.base.TemplatedFile.source_position_dict_from_slice",
         "sqlfluff.core.templaters.base.TemplatedFile.is_source_slice_literal",
         "sqlfluff.core.parser.markers.PositionMarker.__post_init__/source_position/to_source_dict/is_literal",
         "sqlfluff.core.errors.SQLBaseError.__init__/to_dict", "sqlfluff.core.errors._extract_position",
         "sqlfluff.core.errors.SQLLintError.to_dict", "sqlfluff.core.errors.SQLParseError.to_dict",
         "sqlfluff.core.rules.fix.LintFix.to_dict/is_just_source_edit"]


def units(tier, seed):
    if tier == "quick":
        cfg = [(0, "L", 1, "lint"), (2, "L", 1, "lint"), (2, "LTL", 1, "lint"), (2, "LTL", 0, "parse"),
               (3, "L", 0, "base"), (1, "LT", 2, "lint")]
    else:
        cfg = [(K, sh, nf, "lint") for K in (0, 1, 3, 5) for sh in ("L", "LTL") for nf in (1, 2)] + \
              [(4, "LTL", 0, "parse"), (6, "L", 0, "base"), (2, "TLT", 1, "lint")]
    us = []
    cfg = [x + (0,) for x in cfg] + [(1, "L", 0, "base", 1), (1, "L", 1, "lint", 1)]
    for K, sh, nf, kind, J in cfg:
        us.append(Unit(
            name=f"c23.positions[K={K},{sh},{nf}fix,{kind}" + (f",+{J} non-LF line break]" if J else "]"), functions=FUNCS,
            bounds={"source_newlines": K, "other line-break characters": J, "raw_slice_types": sh, "fixes_per_violation": nf,
                    "error_class": kind, "text_length/offsets": "unbounded"},
            make=make(K, sh, nf, kind, J), replay=replay(K, sh, nf, kind, J),
            stubs=["source text = NLStr (length + newline positions)", "rule object = stub with code/name",
                   "segments = real RawSegment with symbolic PositionMarker"],
            assumptions=["anchors' source slices satisfy 0<=start<=stop<=len(source) (established by C01)"],
            outside=["that a rule anchors the right segment", "output formatters (JSON/YAML/SARIF writers)"],
            witnesses_required=(["has_file_pos"] if kind != "base" else []) + (["fix_delete", "fix_create_before", "fix_create_after", "fix_replace"] if nf else []),
            sharded=True, timeout_s=200 if tier == "quick" else 1200))
    return us


# ---------------------------------------------------------------- the serialised outputs carry the same positions
# A select target whose expression starts at a forked column of line 1 and ends on a later line at a forked column: the
# anchor can end left of, at, or right of the column it starts at.
def _fmt_sql(pad, tail_indent, lines_between):
    body = "SELECT " + "a, " * pad + "b + CASE\n" + "".join("    WHEN x = %d THEN 2\n" % i for i in range(lines_between))
    return body + " " * tail_indent + "END\nFROM t\n"


def formats_case(pad, tail_indent, lines_between):
    """(problem or None, some anchor ends left of its start?) for json vs yaml vs sarif vs github-annotation positions."""
    import json
    import os
    import shutil
    import tempfile
    from click.testing import CliRunner
    from sqlfluff.cli import commands as cmds
    d = tempfile.mkdtemp(prefix="c23f_")
    try:
        p = os.path.join(d, "q.sql")
        sql = _fmt_sql(pad, tail_indent, lines_between)
        open(p, "w").write(sql)

        def run(fmt):
            try:
                r = CliRunner(mix_stderr=False).invoke(cmds.cli, ["lint", p, "--dialect", "ansi", "--format", fmt])
            except TypeError:
                r = CliRunner().invoke(cmds.cli, ["lint", p, "--dialect", "ansi", "--format", fmt])
            return r.stdout
        js = [v for f in json.loads(run("json")) for v in f["violations"]]
        import yaml
        ys = [v for f in yaml.safe_load(run("yaml")) for v in f["violations"]]
        sarif = json.loads(run("sarif"))["runs"][0]["results"]
        problems = []
        narrow = False
        key = lambda v: (v["code"], v["start_line_no"], v["start_line_pos"])  # noqa: E731
        if sorted(map(key, js)) != sorted(map(key, ys)):
            problems.append("json and yaml list different violations")
        for v in js:
            if "end_line_pos" in v and v["end_line_no"] > v["start_line_no"] and v["end_line_pos"] < v["start_line_pos"]:
                narrow = True
            # offsets agree with line/col in the source text
            lines = sql.split("\n")
            off = sum(len(x) + 1 for x in lines[:v["start_line_no"] - 1]) + v["start_line_pos"] - 1
            if "start_file_pos" in v and off != v["start_file_pos"]:
                problems.append(f"{v['code']}: start line/col {v['start_line_no']}:{v['start_line_pos']} is offset {off}, record says {v['start_file_pos']}")
            match = [r for r in sarif if r["ruleId"] == v["code"] and r["locations"][0]["physicalLocation"]["region"]["startLine"] == v["start_line_no"]
                     and r["locations"][0]["physicalLocation"]["region"]["startColumn"] == v["start_line_pos"]]
            if not match:
                problems.append(f"{v['code']} at {v['start_line_no']}:{v['start_line_pos']} has no SARIF result at that position")
                continue
            reg = match[0]["locations"][0]["physicalLocation"]["region"]
            if "end_line_no" in v and (reg.get("endLine"), reg.get("endColumn")) != (v["end_line_no"], v["end_line_pos"]):
                problems.append(f"{v['code']}: json ends at {v['end_line_no']}:{v['end_line_pos']}, SARIF region is {reg}")
        return ("; ".join(problems[:3]) or None), narrow, sql
    finally:
        shutil.rmtree(d, ignore_errors=True)


def make_formats():
    def factory(excluded=frozenset()):
        def harness(c):
            pad = int(fresh_int(c, "targets_before", 0, 2))
            tail = int(fresh_int(c, "indent_of_last_line", 0, 2)) * 8
            between = int(fresh_int(c, "lines_between", 0, 1))
            problem, narrow, _ = formats_case(pad, tail, between)   # REAL CLI, three output formats
            if narrow:
                c.witness("anchor_ends_left_of_its_start_column")
            else:
                c.witness("anchor_ends_right_of_its_start_column")
            return problem is None
        return harness
    return factory


def replay_formats(cex):
    problem, _, sql = formats_case(int(cex.get("targets_before", 0)), int(cex.get("indent_of_last_line", 0)) * 8, int(cex.get("lines_between", 0)))
    return f"`sqlfluff lint` on {sql!r}: {problem}" if problem else None


_units_positions = units


def units(tier, seed):  # noqa: F811
    return _units_positions(tier, seed) + [Unit(
        name="c23.serialised_positions", functions=["sqlfluff.cli.commands.lint (json / yaml / sarif writers)", "LintingResult.as_records",
                                                    "SQLBaseError.to_dict"],
        bounds={"select targets before the multi-line one": "0..2", "indent of its last line": "0 / 8 / 16", "lines in between": "0..1"},
        make=make_formats(), replay=replay_formats,
        stubs=["none: real CLI through click's CliRunner on a real file, all default rules"],
        outside=["github-annotation and human formats", "templated files"],
        witnesses_required=["anchor_ends_left_of_its_start_column", "anchor_ends_right_of_its_start_column"], sharded=True, timeout_s=600)]
