"""C24 Parallel and serial runs agree (narrow): the worker completion order and the path order are symbolic."""
from __future__ import annotations

import os
import pickle
import shutil
import tempfile

from lib.runner import Unit
from symlite.values import fresh_int

import sqlfluff.core.linter.runner as rmod
from sqlfluff.core import FluffConfig, Linter

KNOWN = {}

FILES = {
    "a.sql": "SELECT  1 AS x\n",                 # LT01 (fixable)
    "b.sql": "SELECT * FROM t\n",                # AM04 (unfixable)
    "c.sql": "select 1 +\n",                     # parse error
    "d.sql": "SELECT 1 AS y\n",                  # clean
}
# templated files whose directories carry DIFFERENT jinja contexts (nested .sqlfluff): e defines my_var, f and g do not
TFILES = {
    "e.sql": "-- sqlfluff:exclude_rules:LT01\nSELECT  {{ my_var }} AS x FROM t\n",   # its own rule selection (inline)
    "f.sql": "SELECT {{ my_var }} AS y FROM u\n",       # my_var undefined here -> TMP
    "g.sql": "SELECT  {{ my_var }} AS z, {{ other }} FROM v\n",
}
TCONFIGS = {"e": "[sqlfluff:templater:jinja:context]\nmy_var = col_a\n", "g": "[sqlfluff:templater:jinja:context]\nother = col_b\n"}
_DIR = None
_SERIAL = {}


def _tree(n):
    global _DIR
    if _DIR is None:
        _DIR = tempfile.mkdtemp(prefix="c24_", dir=os.environ.get("VERIF_SCRATCH", None))
        import atexit
        atexit.register(shutil.rmtree, _DIR, True)
        for name, sql in FILES.items():
            sub = os.path.join(_DIR, name[0])
            os.makedirs(sub, exist_ok=True)
            open(os.path.join(sub, name), "w").write(sql)
        for name, sql in TFILES.items():
            sub = os.path.join(_DIR, name[0])
            os.makedirs(sub, exist_ok=True)
            open(os.path.join(sub, name), "w").write(sql)
            if name[0] in TCONFIGS:
                open(os.path.join(sub, ".sqlfluff"), "w").write(TCONFIGS[name[0]])
    if n == "templated":
        return [os.path.join(_DIR, name[0], name) for name in TFILES]
    return [os.path.join(_DIR, name[0], name) for name in list(FILES)[:n]]


WARNINGS = [None, "PRS", "LT01,AM04"]


def _cfg(warnings=None):
    ov = {"dialect": "ansi", "rules": "LT01,AM04"}
    if warnings:
        ov["warnings"] = warnings
    return FluffConfig(overrides=ov)


def _summary(res):
    recs = [(os.path.basename(r["filepath"]), [(v["code"], v["start_line_no"], v["start_line_pos"], v.get("warning")) for v in r["violations"]])
            for r in res.as_records()]
    per_dir = sorted((os.path.basename(d.path), d.stats()["files"], d.stats()["violations"]) for d in res.paths)
    return recs, per_dir, res.stats(1, 0)["exit code"], res.stats(1, 0)["violations"]


def serial(n, warnings=None):
    if (n, warnings) not in _SERIAL:
        paths = tuple(_tree(n))
        _SERIAL[(n, warnings)] = _summary(Linter(config=_cfg(warnings)).lint_paths(paths, processes=1))
    return _SERIAL[(n, warnings)]


def _perm(c, name, n):
    """A permutation of range(n) chosen by solver-forked indices."""
    left, out = list(range(n)), []
    for k in range(n - 1):
        i = int(fresh_int(c, f"{name}{k}", 0, len(left) - 1))
        out.append(left.pop(i))
    return out + left


def make(n):
    def factory(excluded=frozenset()):
        def harness(c):
            paths = _tree(n)
            from symlite.values import choose, fresh_bool
            warnings = choose(c, "warnings_config", WARNINGS if n != "templated" else [None])
            order_paths = _perm(c, "path_order", len(paths))
            if n == "templated" and bool(fresh_bool(c, "single_process")):
                # the same path list, permuted, through the REAL sequential runner: must equal the reference order's result
                res = Linter(config=_cfg(warnings)).lint_paths(tuple(paths[i] for i in order_paths), processes=1)
                if order_paths != sorted(order_paths):
                    c.witness("serial_permuted_paths")
                return _summary(res) == serial(n, warnings)
            order_done = _perm(c, "finish_order", len(paths))

            class PermRunner(rmod.ParallelRunner):
                """Real ParallelRunner.run/_apply; the pool hands results back in a symbolic order and every task and
                result crosses a real pickle round trip (as it would across processes)."""

                @classmethod
                def _create_pool(cls, processes, initializer):
                    return type("P", (), {"terminate": lambda s: None, "join": lambda s: None})()

                @classmethod
                def _map(cls, pool, func, iterable):
                    results = [pickle.loads(pickle.dumps(func(pickle.loads(pickle.dumps(item))))) for item in iterable]
                    return [results[i] for i in order_done if i < len(results)]
            real = rmod.get_runner
            rmod.get_runner = lambda linter, config, processes, allow_process_parallelism=True: (PermRunner(linter, config, processes), processes)
            try:
                res = Linter(config=_cfg(warnings)).lint_paths(tuple(paths[i] for i in order_paths), processes=2)  # REAL
            finally:
                rmod.get_runner = real
            got = _summary(res)
            exp = serial(n, warnings)
            if order_done != sorted(order_done):
                c.witness("out_of_order_completion")
            if order_paths != sorted(order_paths):
                c.witness("permuted_paths")
            return got == exp
        return harness
    return factory


def units(tier, seed):
    serial("templated", None)
    for w in WARNINGS:
        serial(4 if tier != "quick" else 3, w)  # temp tree + serial references built in the parent process
    return [Unit(
        name=f"c24.parallel_vs_serial[{n} files]",
        functions=["sqlfluff.core.linter.runner.ParallelRunner.run/_apply/iter_partials", "Linter.lint_paths (result assembly)",
                   "LintedDir.add", "LintingResult.as_records/stats", "FluffConfig.__getstate__/__setstate__ (real pickle round trip)"],
        bounds={"files": n, "completion orders": f"all {n}! (forked)", "path orders": f"all {n}! (forked)", "warnings config": WARNINGS},
        make=make(n), replay="concrete",
        stubs=["multiprocessing pool -> in-process map whose results come back in a symbolic permutation; tasks and results are "
               "pickled and unpickled"],
        outside=["OS scheduling, real worker processes, fix mode file writes"],
        witnesses_required=["out_of_order_completion", "permuted_paths"], sharded=False, timeout_s=900)
        for n in ([3] if tier == "quick" else [3, 4])] + [Unit(
        name="c24.templated_nested_contexts[3 files]",
        functions=["sqlfluff.core.linter.runner.SequentialRunner/ParallelRunner.run/_apply (worker-side render)", "Linter.render_file / load_raw_file_and_config",
                   "JinjaTemplater.get_context", "FluffConfig.__getstate__/__setstate__ (real pickle round trip)"],
        bounds={"files": "3 jinja files in 3 directories, two of which define different templater contexts in a nested .sqlfluff",
                "path orders": "all 3!", "mode": "1 process (real sequential runner) or 2 (all 3! completion orders)"},
        make=make("templated"), replay="concrete",
        stubs=["multiprocessing pool -> in-process map with symbolic completion order and real pickle round trips"],
        outside=["OS scheduling, real worker processes, fix mode file writes"],
        witnesses_required=["out_of_order_completion", "permuted_paths", "serial_permuted_paths"], sharded=False, timeout_s=900)]
