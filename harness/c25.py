"""C25 File discovery honours ignore files regardless of path spelling (real temp tree per explored path)."""
from __future__ import annotations

import os
import shutil
import tempfile

import pathspec

from lib.runner import Unit
from symlite.values import NullLogger, choose, fresh_bool

import sqlfluff.core.linter.discovery as disc
from sqlfluff.core.linter.discovery import paths_from_path

KNOWN = {}
FILES = ["proj/a.sql", "proj/sub/b.sql", "proj/sub/deep/c.sql", "proj/sub/deep/d.SQL", "proj/sub/notes.txt"]
IGNORE_DIRS = ["", "proj", "proj/sub", "proj/sub/deep"]          # relative to the working directory
PATTERNS = ["c.sql", "b.sql", "deep/", "*.sql", "sub/deep/c.sql", "/a.sql"]


def build(root, ignores, kinds=None):
    """kinds[d] = 'ignorefile' (.sqlfluffignore) or 'config' (.sqlfluff with ignore_paths)."""
    for f in FILES:
        p = os.path.join(root, f)
        os.makedirs(os.path.dirname(p), exist_ok=True)
        open(p, "w").write("select 1\n")
    for d, pat in ignores.items():
        if (kinds or {}).get(d, "ignorefile") == "config":
            open(os.path.join(root, d, ".sqlfluff"), "w").write(f"[sqlfluff]\nignore_paths = {pat}\n")
        else:
            open(os.path.join(root, d, ".sqlfluffignore"), "w").write(pat + "\n")


def fresh_process_state():
    """Every explored path starts from the state of a new process: all function caches of the discovery and config-file
    modules are emptied, so that the only history a path has is the one it spells out."""
    import sqlfluff.core.config.file as cf
    import sqlfluff.core.config.loader as cl
    for mod in (disc, cf, cl):
        for v in vars(mod).values():
            if callable(getattr(v, "cache_clear", None)):
                v.cache_clear()


def other_tree_history(ignores, kinds):
    """An earlier discovery in the same process, in ANOTHER project with the same layout whose ignore files sit at the same
    relative places but hold different patterns, run from that project's own working directory with the same spellings."""
    root2 = os.path.realpath(tempfile.mkdtemp(prefix="c25o_"))
    try:
        build(root2, {d: ("*.sql" if pat != "*.sql" else "c.sql") for d, pat in ignores.items()}, kinds)
        run_spellings(root2)
    finally:
        shutil.rmtree(root2, ignore_errors=True)


def reference(root, ignores, target="proj"):
    """Files under `target` with a configured extension that no applicable ignore file matches. An ignore file in
    directory D applies to every file below D (D an ancestor of the file, inside the working directory)."""
    out = []
    for f in FILES:
        if not f.lower().endswith(".sql") or not f.startswith(target + "/"):
            continue
        ignored = False
        for d, pat in ignores.items():
            dpath = d + "/" if d else ""
            if not f.startswith(dpath):
                continue
            rel = f[len(dpath):]
            spec = pathspec.PathSpec.from_lines("gitignore", [pat])
            # a pattern may match the file itself or any of its parent directories below D
            parts = rel.split("/")
            cands = [rel] + ["/".join(parts[:k]) + "/" for k in range(1, len(parts))]
            if any(spec.match_file(x) for x in cands):
                ignored = True
        if not ignored:
            out.append(os.path.normpath(os.path.join(root, f)))
    return sorted(out)


def run_spellings(root, target="proj"):
    res = {}
    cwd = os.getcwd()
    try:
        os.chdir(root)
        res["relative"] = sorted(os.path.abspath(p) for p in paths_from_path(target, working_path=root))
        res["absolute"] = sorted(os.path.abspath(p) for p in paths_from_path(os.path.join(root, target), working_path=root))
        os.chdir(os.path.join(root, target))
        res["dot"] = sorted(os.path.abspath(p) for p in paths_from_path(".", working_path=root))
    finally:
        os.chdir(cwd)
    return res


def make(max_ignores):
    def factory(excluded=frozenset()):
        disc.linter_logger = NullLogger()

        def harness(c):
            fresh_process_state()
            ignores, kinds = {}, {}
            for d in IGNORE_DIRS:
                if len(ignores) < max_ignores and bool(fresh_bool(c, f"ignore_in_{d or 'cwd'}")):
                    ignores[d] = choose(c, f"pattern_{d or 'cwd'}", PATTERNS)
                    kinds[d] = choose(c, f"kind_{d or 'cwd'}", ["ignorefile", "config"])
            if ignores and bool(fresh_bool(c, "earlier_discovery_in_another_project")):
                other_tree_history(ignores, kinds)   # REAL, same process
                c.witness("after_another_project")
            if "config" in kinds.values():
                c.witness("ignore_paths_in_config")
            root = os.path.realpath(tempfile.mkdtemp(prefix="c25_"))
            try:
                build(root, ignores, kinds)
                res = run_spellings(root)  # REAL paths_from_path x 3 spellings
                exp = reference(root, ignores)
            finally:
                shutil.rmtree(root, ignore_errors=True)
            if any(d in ("proj/sub", "proj/sub/deep") for d in ignores):
                c.witness("nested_ignore_file")
            if exp != reference(root, {}):
                c.witness("something_ignored")
            return res["relative"] == res["absolute"] == res["dot"] == exp
        return harness
    return factory


def replay(max_ignores):
    def rp(cex):
        fresh_process_state()
        ignores, kinds = {}, {}
        for d in IGNORE_DIRS:
            if len(ignores) < max_ignores and cex.get(f"ignore_in_{d or 'cwd'}"):
                ignores[d] = PATTERNS[int(cex.get(f"pattern_{d or 'cwd'}", 0))]
                kinds[d] = ["ignorefile", "config"][int(cex.get(f"kind_{d or 'cwd'}", 0))]
        hist = bool(ignores and cex.get("earlier_discovery_in_another_project"))
        if hist:
            other_tree_history(ignores, kinds)
        root = os.path.realpath(tempfile.mkdtemp(prefix="c25_"))
        try:
            build(root, ignores, kinds)
            res = run_spellings(root)
            exp = reference(root, ignores)
        finally:
            shutil.rmtree(root, ignore_errors=True)
        strip = lambda xs: [os.path.relpath(x, root) for x in xs]  # noqa: E731
        if not (res["relative"] == res["absolute"] == res["dot"] == exp):
            return (f"ignore patterns {ignores} (kinds {kinds}){' after a discovery in another project of the same layout' if hist else ''}: given as 'proj' -> {strip(res['relative'])}; absolute -> {strip(res['absolute'])}; "
                    f"'.' -> {strip(res['dot'])}; expected {strip(exp)}")
        return None
    return rp


def units(tier, seed):
    return [Unit(
        name=f"c25.discovery[<= {k} ignore files]",
        functions=["sqlfluff.core.linter.discovery.paths_from_path", "_iter_files_in_path", "_process_exact_path", "_check_ignore_specs",
                   "_iter_config_files", "_load_ignorefile", "sqlfluff.core.helpers.file.iter_intermediate_paths"],
        bounds={"tree": FILES, "ignore files": f"<= {k} among {IGNORE_DIRS}", "kind of each": ".sqlfluffignore / ignore_paths in .sqlfluff",
                "patterns": PATTERNS, "spellings": "relative, absolute, '.'",
                "history": "none / the same spellings run first in another project with the same layout and other patterns"},
        make=make(k), replay=replay(k),
        stubs=["none: a real temporary tree is built for every explored path; which ignore files exist and what they contain are "
               "solver-forked choices"],
        outside=["pyproject.toml", "symlinks", "exact-file paths"],
        witnesses_required=["nested_ignore_file", "something_ignored", "ignore_paths_in_config", "after_another_project"], sharded=True, timeout_s=600 if tier == "quick" else 1800)
        for k in ([2] if tier == "quick" else [2, 3])]
