"""C26 Writing fixed files is atomic and faithful: every operation of the write path fails (or the process dies) there."""
from __future__ import annotations

import os
import shutil
import stat
import tempfile
import types

from lib.runner import Unit
from symlite.values import choose, fresh_bool, fresh_int

import sqlfluff.core.linter.linted_file as lf
from sqlfluff.core.linter.linted_file import LintedFile

KNOWN = {}
OPS = ["stat", "NamedTemporaryFile", "write", "flush", "fsync", "chmod", "move"]
KINDS = ["oserror", "keyboardinterrupt", "partial_write_then_oserror", "process_dies"]
MODES = [0o600, 0o644, 0o750]
OLD, NEW = "select 1\n", "SELECT 1\n"


class Boom(OSError):
    pass


class Counter:
    def __init__(self, fail_at, kind):
        self.n, self.fail_at, self.kind, self.log = 0, fail_at, kind, []

    def tick(self, name):
        self.n += 1
        self.log.append(name)
        if self.n == self.fail_at:
            if self.kind == "process_dies":
                os._exit(9)
            raise KeyboardInterrupt(name) if self.kind == "keyboardinterrupt" else Boom(name)


def proxy_module(mod, names, ctr):
    p = types.SimpleNamespace(**{k: getattr(mod, k) for k in dir(mod) if not k.startswith("__")})
    for nm in names:
        orig = getattr(mod, nm)

        def mk(orig, nm):
            def f(*a, **k):
                ctr.tick(nm)
                return orig(*a, **k)
            return f
        setattr(p, nm, mk(orig, nm))
    return p


def install(ctr):
    """Rebind os / shutil / tempfile as seen by linted_file to counting fault proxies."""
    real = (lf.os, lf.shutil, lf.tempfile)
    lf.os = proxy_module(os, ["stat", "chmod", "fsync"], ctr)
    lf.os.path = os.path
    lf.shutil = proxy_module(shutil, ["move"], ctr)

    class TmpProxy:
        @staticmethod
        def NamedTemporaryFile(*a, **k):
            ctr.tick("NamedTemporaryFile")
            f = tempfile.NamedTemporaryFile(*a, **k)

            class F:
                def __getattr__(s, n):
                    return getattr(f, n)

                def __enter__(s):
                    f.__enter__()
                    return s

                def __exit__(s, *e):
                    return f.__exit__(*e)

                @property
                def file(s):
                    class FF:
                        def write(_, b):
                            if ctr.kind == "partial_write_then_oserror" and ctr.n + 1 == ctr.fail_at:
                                f.file.write(b[: len(b) // 2])
                                f.file.flush()
                            ctr.tick("write")
                            return f.file.write(b)
                    return FF()

                def flush(s):
                    ctr.tick("flush")
                    return f.flush()

                def fileno(s):
                    return f.fileno()
                name = property(lambda s: f.name)
            return F()
    lf.tempfile = TmpProxy

    def proxy_open(path, mode="r", *a, **k):
        """Any direct open() by the module under test is a counted, faultable operation too (writes may be partial)."""
        ctr.tick("open")
        fh = open(path, mode, *a, **k)
        if "w" not in mode and "a" not in mode:
            return fh

        class W:
            def __getattr__(s, n):
                return getattr(fh, n)

            def __enter__(s):
                return s

            def __exit__(s, *e):
                fh.close()

            def write(s, b):
                if ctr.kind == "partial_write_then_oserror" and ctr.n + 1 == ctr.fail_at:
                    fh.write(b[: len(b) // 2])
                    fh.flush()
                ctr.tick("write")
                return fh.write(b)
        return W()
    lf.open = proxy_open
    return real


def run(fail_at, kind, mode, bom, suffix):
    d = tempfile.mkdtemp(prefix="c26_")
    try:
        src = os.path.join(d, "q.sql")
        out = os.path.join(d, "q.fixed.sql") if suffix else src
        enc = "utf-8-sig" if bom else "utf-8"
        with open(src, "w", encoding=enc, newline="") as fh:
            fh.write(OLD)
        os.chmod(src, mode)
        ctr = Counter(fail_at, kind)
        err = None
        if kind == "process_dies" and fail_at:
            pid = os.fork()
            if pid == 0:
                try:
                    install(ctr)
                    LintedFile._safe_create_replace_file(src, out, NEW, enc)  # REAL, dies inside
                finally:
                    os._exit(0)
            _, status = os.waitpid(pid, 0)
            err = "died" if os.WEXITSTATUS(status) == 9 else None
        else:
            real = install(ctr)
            try:
                LintedFile._safe_create_replace_file(src, out, NEW, enc)  # REAL
            except BaseException as e:  # noqa: B902 - KeyboardInterrupt on purpose
                err = type(e).__name__
            finally:
                lf.os, lf.shutil, lf.tempfile = real
                if "open" in vars(lf):
                    del lf.open
        files = sorted(os.listdir(d))
        read = lambda p: open(p, "rb").read() if os.path.exists(p) else None  # noqa: E731
        return dict(err=err, ops=ctr.log, files=files, out=read(out), src=read(src),
                    out_mode=stat.S_IMODE(os.stat(out).st_mode) if os.path.exists(out) else None)
    finally:
        shutil.rmtree(d, ignore_errors=True)


def judge(r, fail_at, kind, mode, bom, suffix):
    bomb = b"\xef\xbb\xbf" if bom else b""
    old, new = bomb + OLD.encode(), bomb + NEW.encode()
    problems = []
    target = r["out"]
    if suffix:
        if r["src"] != old:
            problems.append(f"original modified although a suffix was requested: {r['src']!r}")
        if target not in (None, new):
            problems.append(f"suffixed target holds partial content {target!r}")
    elif target not in (old, new):
        problems.append(f"target holds neither the complete old nor the complete new content: {target!r}")
    leftovers = [f for f in r["files"] if f not in ("q.sql", "q.fixed.sql")]
    if leftovers and kind != "process_dies":
        problems.append(f"temporary file left behind after {r['err'] or 'success'}: {leftovers}")
    if r["err"] is None:
        if target != new:
            problems.append(f"write reported success but target is {target!r}")
        if r["out_mode"] != mode:
            problems.append(f"mode {oct(r['out_mode'])} != original {oct(mode)}")
    return problems


def make():
    def factory(excluded=frozenset()):
        def harness(c):
            fail_at = int(fresh_int(c, "fail_at", 0, len(OPS) + 3))
            kind = choose(c, "kind", KINDS) if fail_at else "oserror"
            mode = choose(c, "mode", MODES)
            bom = bool(fresh_bool(c, "bom"))
            suffix = bool(fresh_bool(c, "suffix"))
            r = run(fail_at, kind, mode, bom, suffix)
            if fail_at == 0:
                c.witness("success")
            if r["err"]:
                c.witness("fault_" + kind)
            return not judge(r, fail_at, kind, mode, bom, suffix)
        return harness
    return factory


def replay(cex):
    fail_at = int(cex.get("fail_at", 0))
    kind = KINDS[int(cex.get("kind", 0))] if fail_at else "oserror"
    mode = MODES[int(cex.get("mode", 0))]
    bom, suffix = bool(cex.get("bom")), bool(cex.get("suffix"))
    r = run(fail_at, kind, mode, bom, suffix)
    p = judge(r, fail_at, kind, mode, bom, suffix)
    op = r["ops"][fail_at - 1] if 0 < fail_at <= len(r["ops"]) else "none"
    return f"fault {kind} at operation #{fail_at} ({op}), mode {oct(mode)}, bom={bom}, suffix={suffix}: " + "; ".join(p) if p else None


def make_persist():
    """persist_tree gate: nothing fixable / nothing changed => no write; suffix => new file name."""
    def factory(excluded=frozenset()):
        def harness(c):
            from harness import outcome as oc
            has_fix = bool(fresh_bool(c, "has_fixable"))
            changed = bool(fresh_bool(c, "fix_changes_text"))
            suffix = choose(c, "suffix", ["", ".fixed", "_fix"])
            stem = choose(c, "file_stem", ["q", "q.fixed", "hot_fix", "_fix"])
            calls = []

            class F(LintedFile):
                def fix_string(self):
                    return ("NEW" if changed else "OLD"), changed
            real = LintedFile._safe_create_replace_file
            LintedFile._safe_create_replace_file = staticmethod(lambda i, o, buf, enc: calls.append((i, o, buf, enc)))
            try:
                vs = [oc.make_violation("LINT_FIX", False, False, 1)] if has_fix else [oc.make_violation("LINT_NOFIX", False, False, 1)]
                f = F(f"dir/{stem}.sql", vs, None, None, None, None, "utf-8-sig")
                ok = LintedFile.persist_tree(f, suffix=suffix)  # REAL
            finally:
                LintedFile._safe_create_replace_file = real
            if calls:
                c.witness("written")
            if suffix and stem.endswith(suffix):
                c.witness("stem_already_ends_with_suffix")
            exp_calls = [(f"dir/{stem}.sql", f"dir/{stem}{suffix}.sql", "NEW", "utf-8-sig")] if (has_fix and changed) else []
            return calls == exp_calls
        return harness
    return factory


# ---------------------------------------------------------------- every route that persists fixes honours the suffix
PERSIST_ROUTES = ["lint_paths_apply_fixes", "deferred_persist_changes", "cli_fix", "cli_fix_check_yes"]
SRC = "SELECT  1 AS a\n"
FIXED = "SELECT 1 AS a\n"


def run_persist_route(route, suffix, n_files):
    """Returns a description of what is wrong, or None. Real files, real Linter / real CLI."""
    import os
    import shutil
    import tempfile
    from sqlfluff.core import FluffConfig, Linter
    d = os.path.realpath(tempfile.mkdtemp(prefix="c26r_"))
    try:
        names = [f"f{i}.sql" for i in range(n_files)]
        for n in names:
            open(os.path.join(d, n), "w", newline="").write(SRC)
        paths = tuple(os.path.join(d, n) for n in names)
        if route == "lint_paths_apply_fixes":
            Linter(config=FluffConfig(overrides={"dialect": "ansi", "rules": "LT01"})).lint_paths(
                paths, fix=True, apply_fixes=True, fixed_file_suffix=suffix)
        elif route == "deferred_persist_changes":
            res = Linter(config=FluffConfig(overrides={"dialect": "ansi", "rules": "LT01"})).lint_paths(
                paths, fix=True, apply_fixes=False, retain_files=True)
            res.persist_changes(formatter=None, fixed_file_suffix=suffix)
        else:
            from click.testing import CliRunner
            from sqlfluff.cli import commands as cmds
            args = ["fix", *paths, "--dialect", "ansi", "--rules", "LT01"] + (["--fixed-suffix", suffix] if suffix else [])
            args += ["--check"] if route == "cli_fix_check_yes" else []
            CliRunner().invoke(cmds.cli, args, input="y\n" if route == "cli_fix_check_yes" else None)
        problems = []
        expect = set(names) | ({n[:-4] + suffix + ".sql" for n in names} if suffix else set())
        got = set(os.listdir(d))
        if got != expect:
            problems.append(f"directory holds {sorted(got)}, expected {sorted(expect)}")
        for n in names:
            orig = open(os.path.join(d, n), newline="").read()
            if suffix:
                if orig != SRC:
                    problems.append(f"{n} was modified although --fixed-suffix {suffix!r} was given")
                out = os.path.join(d, n[:-4] + suffix + ".sql")
                if os.path.exists(out) and open(out, newline="").read() != FIXED:
                    problems.append(f"{os.path.basename(out)} does not hold the fixed text")
            elif orig != FIXED:
                problems.append(f"{n} holds {orig!r}, expected the fixed text")
        return "; ".join(problems) or None
    finally:
        shutil.rmtree(d, ignore_errors=True)


def make_persist_routes():
    def factory(excluded=frozenset()):
        def harness(c):
            route = choose(c, "route", PERSIST_ROUTES)
            suffix = choose(c, "suffix", ["", "_fixed"])
            n_files = int(fresh_int(c, "files", 1, 2))
            if suffix:
                c.witness("suffix_given")
            if route == "deferred_persist_changes":
                c.witness("deferred")
            return run_persist_route(route, suffix, n_files) is None
        return harness
    return factory


def replay_persist_routes(cex):
    route = PERSIST_ROUTES[int(cex.get("route", 0))]
    suffix = ["", "_fixed"][int(cex.get("suffix", 0))]
    p = run_persist_route(route, suffix, int(cex.get("files", 1)))
    return f"route {route}, fixed-suffix {suffix!r}: {p}" if p else None


def units(tier, seed):
    return [
        Unit(name="c26.safe_create_replace_file", functions=["sqlfluff.core.linter.linted_file.LintedFile._safe_create_replace_file"],
             bounds={"fault point": f"none or any of {OPS}", "fault kind": KINDS, "modes": [oct(m) for m in MODES], "bom": "both", "suffix": "both"},
             make=make(), replay=replay,
             stubs=["os/shutil/tempfile as seen by linted_file -> counting proxies over the REAL functions on a real temp directory; "
                    "the fault raises OSError / KeyboardInterrupt, writes half the buffer first, or os._exit()s in a forked child"],
             witnesses_required=["success"] + ["fault_" + k for k in KINDS], sharded=True, timeout_s=900),
        Unit(name="c26.persist_routes", functions=["sqlfluff.core.linter.linter.Linter.lint_paths (apply_fixes)", "LintingResult.persist_changes",
                                                   "LintedDir.persist_changes", "sqlfluff.cli.commands.fix / do_fixes (--check)", "LintedFile.persist_tree"],
             bounds={"route": PERSIST_ROUTES, "fixed-suffix": "none / _fixed", "files": "1..2"}, make=make_persist_routes(), replay=replay_persist_routes,
             stubs=["none: real files, real Linter and real CLI (click CliRunner)"], outside=["format command", "stdin routes (nothing is persisted)"],
             witnesses_required=["suffix_given", "deferred"], sharded=True, timeout_s=600),
        Unit(name="c26.persist_tree_gate", functions=["sqlfluff.core.linter.linted_file.LintedFile.persist_tree"],
             bounds={"fixable violations": "present/absent", "fix changes text": "both", "suffix": "none/.fixed/_fix",
                     "file stem": "q / q.fixed / hot_fix / _fix (incl. stems that already end with the suffix)"},
             make=make_persist(), replay="concrete", witnesses_required=["written", "stem_already_ends_with_suffix"], sharded=False, timeout_s=120),
    ]
