"""C27 Configuration precedence and isolation (real config files in a temp tree per explored path)."""
from __future__ import annotations

import os
import shutil
import tempfile

from lib.runner import Unit
from symlite.values import NullLogger, choose, fresh_bool, fresh_int

from sqlfluff.core import FluffConfig, Linter

KNOWN = {}
# layers in increasing precedence; each may set core:max_line_length (k1) and/or indentation:tab_space_size (k2)
LAYERS = ["appdir", "home", "cwd", "proj", "sub", "extra", "overrides"]
DEFAULT = {"k1": 80, "k2": 4}


def write_cfg(path, vals):
    os.makedirs(os.path.dirname(path), exist_ok=True)
    body = "[sqlfluff]\ndialect = ansi\n"
    if "k1" in vals:
        body += f"max_line_length = {vals['k1']}\n"
    if "k2" in vals:
        body += f"\n[sqlfluff:indentation]\ntab_space_size = {vals['k2']}\n"
    open(path, "w").write(body)


def build(root, layers):
    home = os.path.join(root, "home")
    work = os.path.join(home, "work")
    os.makedirs(os.path.join(work, "proj", "sub"), exist_ok=True)
    where = {"appdir": os.path.join(home, ".config", "sqlfluff", ".sqlfluff"), "home": os.path.join(home, ".sqlfluff"),
             "cwd": os.path.join(work, ".sqlfluff"), "proj": os.path.join(work, "proj", ".sqlfluff"),
             "sub": os.path.join(work, "proj", "sub", ".sqlfluff"), "extra": os.path.join(root, "extra.cfg")}
    for name, vals in layers.items():
        if name in where and vals:
            write_cfg(where[name], vals)
    for f in ("proj/sub/one.sql", "proj/sub/two.sql", "proj/other.sql"):
        open(os.path.join(work, f), "w").write("select 1\n")
    return home, work, where["extra"] if layers.get("extra") else None


def get(cfg):
    return {"k1": cfg.get("max_line_length"), "k2": cfg.get("tab_space_size", section="indentation")}


def expected(layers, upto):
    out = dict(DEFAULT)
    for name in LAYERS:
        if name in ("proj", "sub") and name not in upto:
            continue
        for k, v in layers.get(name, {}).items():
            out[k] = v
    return out


def run_case(layers, inline):
    """Returns dict of observed configs + isolation checks, computed with the REAL config machinery."""
    root = os.path.realpath(tempfile.mkdtemp(prefix="c27_"))
    env_home, cwd = os.environ.get("HOME"), os.getcwd()
    env_xdg = os.environ.pop("XDG_CONFIG_HOME", None)
    try:
        home, work, extra = build(root, layers)
        os.environ["HOME"] = home
        os.chdir(work)
        ov = dict(layers.get("overrides", {}))
        overrides = {"dialect": "ansi"}
        if "k1" in ov:
            overrides["max_line_length"] = ov["k1"]
        rootcfg = FluffConfig.from_root(extra_config_path=extra, overrides=overrides)
        one = rootcfg.make_child_from_path(os.path.join("proj", "sub", "one.sql"))
        before_inline = get(one)
        if inline is not None:
            one.process_raw_file_for_config(f"-- sqlfluff:max_line_length:{inline}\nselect 1\n", "one.sql")
        after_inline = get(one)
        # aliasing: mutate the first file's config object in place, then load sibling and cousin files
        one.set_value(["indentation", "tab_space_size"], 999)
        one._configs["core"]["max_line_length"] = 998
        two = get(rootcfg.make_child_from_path(os.path.join("proj", "sub", "two.sql")))
        other = get(rootcfg.make_child_from_path(os.path.join("proj", "other.sql")))
        root_after = get(rootcfg)
        return dict(before_inline=before_inline, after_inline=after_inline, two=two, other=other, root_after=root_after)
    finally:
        os.chdir(cwd)
        if env_home is not None:
            os.environ["HOME"] = env_home
        if env_xdg is not None:
            os.environ["XDG_CONFIG_HOME"] = env_xdg
        shutil.rmtree(root, ignore_errors=True)


def judge(layers, inline, r):
    problems = []
    lay = {k: dict(v) for k, v in layers.items()}
    if "k2" in lay.get("overrides", {}):
        del lay["overrides"]["k2"]  # overrides only address the core section
    exp_sub = expected(lay, ("proj", "sub"))
    exp_proj = expected(lay, ("proj",))
    exp_root = expected(lay, ())
    if r["before_inline"] != exp_sub:
        problems.append(f"file in proj/sub sees {r['before_inline']}, expected {exp_sub}")
    exp_inline = dict(exp_sub)
    if inline is not None:
        exp_inline["k1"] = inline
    if r["after_inline"] != exp_inline:
        problems.append(f"after the inline directive the file sees {r['after_inline']}, expected {exp_inline}")
    if r["two"] != exp_sub:
        problems.append(f"settings leaked into a sibling file: it sees {r['two']}, expected {exp_sub}")
    if r["other"] != exp_proj:
        problems.append(f"file in proj sees {r['other']}, expected {exp_proj}")
    if r["root_after"] != exp_root:
        problems.append(f"root config changed to {r['root_after']}, expected {exp_root}")
    return problems


def layers_from(get_bool, n_layers_max):
    layers, used = {}, 0
    for i, name in enumerate(LAYERS):
        vals = {}
        if used < n_layers_max and get_bool(f"{name}_sets_k1"):
            vals["k1"] = 100 + i
        if used < n_layers_max and name != "overrides" and get_bool(f"{name}_sets_k2"):
            vals["k2"] = 200 + i
        if vals:
            used += 1
            layers[name] = vals
    return layers


def make(n_layers_max):
    def factory(excluded=frozenset()):
        def harness(c):
            layers = layers_from(lambda n: bool(fresh_bool(c, n)), n_layers_max)
            inline = 300 if bool(fresh_bool(c, "inline_directive")) else None
            r = run_case(layers, inline)
            if len(layers) >= 2:
                c.witness("two_layers")
            if inline:
                c.witness("inline")
            return not judge(layers, inline, r)
        return harness
    return factory


def replay(n_layers_max):
    def rp(cex):
        layers = layers_from(lambda n: bool(cex.get(n)), n_layers_max)
        inline = 300 if cex.get("inline_directive") else None
        p = judge(layers, inline, run_case(layers, inline))
        return f"config layers {layers}, inline={inline}: " + "; ".join(p) if p else None
    return rp


def make_combine():
    """nested_combine: later dicts win, nested dicts merge, and the result shares no mutable object with the inputs."""
    def factory(excluded=frozenset()):
        from sqlfluff.core.helpers.dict import nested_combine

        def harness(c):
            ds = []
            for i in range(3):
                d = {}
                if bool(fresh_bool(c, f"d{i}_a")):
                    d["a"] = i
                if bool(fresh_bool(c, f"d{i}_sec")):
                    d["sec"] = {}
                    if bool(fresh_bool(c, f"d{i}_sec_x")):
                        d["sec"]["x"] = 10 + i
                    if bool(fresh_bool(c, f"d{i}_sec_y")):
                        d["sec"]["y"] = [20 + i]
                ds.append(d)
            import copy
            snapshot = copy.deepcopy(ds)
            out = nested_combine(*ds)  # REAL
            exp = {}
            for d in snapshot:
                for k, v in d.items():
                    if isinstance(v, dict):
                        exp.setdefault(k, {})
                        if isinstance(exp[k], dict):
                            exp[k].update(copy.deepcopy(v))
                        else:
                            exp[k] = copy.deepcopy(v)
                    else:
                        exp[k] = v
            ok = out == exp
            # mutate the output: inputs must not change
            for v in out.values():
                if isinstance(v, dict):
                    v["zzz"] = 1
                    for vv in v.values():
                        if isinstance(vv, list):
                            vv.append("mut")
            if any("sec" in d for d in ds):
                c.witness("nested")
            return ok and ds == snapshot
        return harness
    return factory


# ---------------------------------------------------------------- inline directives stay with their own file
DIRECTIVES = [
    "max_line_length:20",
    "exclude_rules:LT01",
    "indentation:tab_space_size:2",
    "layout:type:comma:line_position:leading",
    "rules:capitalisation.keywords:capitalisation_policy:upper",
    "rules:layout.long_lines:ignore_comment_lines:true",
    "rules:LT02",
    "templater:jinja:apply_dbt_builtins:false",
]
PLAIN = "select a,b from t\n"
_ISO_DIR = None


def iso_tree():
    global _ISO_DIR
    if _ISO_DIR is None:
        import atexit
        _ISO_DIR = os.path.realpath(tempfile.mkdtemp(prefix="c27i_"))
        atexit.register(shutil.rmtree, _ISO_DIR, True)
        for i, d in enumerate(DIRECTIVES):
            open(os.path.join(_ISO_DIR, f"a{i}.sql"), "w").write(f"-- sqlfluff:{d}\n" + PLAIN)
        open(os.path.join(_ISO_DIR, "b.sql"), "w").write(PLAIN)
    return _ISO_DIR


def _plain(cfg):
    import copy
    out = {}
    for k, v in cfg._configs.items():
        if k == "core":
            v = {kk: vv for kk, vv in v.items() if kk not in ("dialect_obj", "templater_obj")}
        out[k] = copy.deepcopy(v)
    return out


def _viol(linted):
    return sorted((v.rule_code(), v.line_no, v.line_pos) for v in linted.get_violations())


def iso_case(n_first, route, d_idx):
    """Process n_first files carrying inline directive d_idx through `route` with ONE shared config/linter, then an
    undecorated file; report what leaked."""
    import sqlfluff
    d = iso_tree()
    cfg = FluffConfig(overrides={"dialect": "ansi"})
    before = _plain(cfg)
    lin = Linter(config=cfg)
    text_a = f"-- sqlfluff:{DIRECTIVES[d_idx]}\n" + PLAIN
    fresh_b = _viol(Linter(config=FluffConfig(overrides={"dialect": "ansi"})).lint_string(PLAIN, fname="b.sql"))
    for _ in range(n_first):
        if route == "parse_string":
            lin.parse_string(text_a, fname="a.sql")
        elif route == "lint_string":
            lin.lint_string(text_a, fname="a.sql")
        elif route == "simple_api":
            sqlfluff.lint(text_a, config=cfg)
        elif route == "lint_paths":
            lin.lint_paths((os.path.join(d, f"a{d_idx}.sql"),))
        elif route in ("lint_paths_one_run", "lint_paths_two_workers"):
            pass   # handled below: decorated files and the plain file go through ONE lint_paths call
        elif route == "child_config":
            child = cfg.make_child_from_path(os.path.join(d, f"a{d_idx}.sql"))
            child.process_raw_file_for_config(text_a, "a.sql")
        elif route == "copy":
            cp = cfg.copy()
            cp.process_raw_file_for_config(text_a, "a.sql")
    problems = []
    if _plain(cfg) != before:
        ch = [k for k in before if _plain(cfg).get(k) != before[k]] + [k for k in _plain(cfg) if k not in before]
        problems.append(f"the shared configuration changed in section(s) {sorted(set(ch))}")
    if _plain(lin.config) != before:
        problems.append("the linter's configuration changed")
    if route in ("lint_paths_one_run", "lint_paths_two_workers"):
        a_path = os.path.join(d, f"a{d_idx}.sql")
        if route == "lint_paths_two_workers":
            lin.allow_process_parallelism = False   # worker THREADS: same ParallelRunner._apply route, no child processes
        res = lin.lint_paths(tuple([a_path] * min(n_first, 1) + [os.path.join(d, "b.sql")]), processes=2 if route == "lint_paths_two_workers" else 1)
        got_b = [_viol(f) for ld in res.paths for f in ld.files if f.path.endswith("b.sql")][0]
        if n_first:
            # the decorated file itself: its inline settings govern it, exactly as when it is linted alone
            got_a = [_viol(f) for ld in res.paths for f in ld.files if f.path == a_path][0]
            alone = [_viol(f) for ld in Linter(config=FluffConfig(overrides={"dialect": "ansi"})).lint_paths((a_path,)).paths for f in ld.files][0]
            if got_a != alone:
                problems.append(f"the decorated file reports {got_a}, linted alone it reports {alone}")
    else:
        got_b = _viol(lin.lint_string(PLAIN, fname="b.sql"))
    if got_b != fresh_b:
        problems.append(f"a later undecorated file reports {got_b}, alone it reports {fresh_b}")
    return problems


ROUTES = ["parse_string", "lint_string", "simple_api", "lint_paths", "child_config", "copy", "lint_paths_one_run", "lint_paths_two_workers"]


def make_iso():
    def factory(excluded=frozenset()):
        def harness(c):
            route = choose(c, "route", ROUTES)
            d_idx = int(fresh_int(c, "directive", 0, len(DIRECTIVES) - 1))
            n_first = int(fresh_int(c, "files_with_directive_before", 0, 2))
            if n_first:
                c.witness("directive_then_plain")
            if ":" in DIRECTIVES[d_idx].split(":", 1)[1].rsplit(":", 1)[0] and n_first:
                c.witness("nested_directive")
            return not iso_case(n_first, route, d_idx)
        return harness
    return factory


def replay_iso(cex):
    route = ROUTES[int(cex.get("route", 0))]
    d_idx, n_first = int(cex.get("directive", 0)), int(cex.get("files_with_directive_before", 0))
    p = iso_case(n_first, route, d_idx)
    return (f"{n_first} file(s) starting with '-- sqlfluff:{DIRECTIVES[d_idx]}' processed via {route} with one shared config: "
            + "; ".join(p)) if p else None


def units(tier, seed):
    iso_tree()
    return [Unit(name="c27.inline_isolation", functions=["sqlfluff.core.linter.linter.Linter.parse_string/lint_string/lint_paths/load_raw_file_and_config",
                 "sqlfluff.api.simple.lint", "FluffConfig.copy/make_child_from_path/process_raw_file_for_config/process_inline_config/set_value"],
                 bounds={"inline directive": DIRECTIVES, "route": ROUTES, "files carrying the directive before the plain one": "0..2"},
                 make=make_iso(), replay=replay_iso,
                 stubs=["none: real strings / real files, one shared FluffConfig and Linter; the compared state is the whole "
                        "config mapping (minus the dialect/templater objects) and the violations of a later undecorated file"],
                 outside=["directives not in the pool"], witnesses_required=["directive_then_plain", "nested_directive"],
                 sharded=True, timeout_s=600)] + [
        Unit(name=f"c27.precedence[<= {k} layers set values]",
             functions=["sqlfluff.core.config.loader.load_config_up_to_path/load_config_at_path", "sqlfluff.core.config.file.load_config_file_as_dict (@cache)",
                        "FluffConfig.from_root/from_path/make_child_from_path/set_value/process_raw_file_for_config/process_inline_config",
                        "sqlfluff.core.helpers.dict.nested_combine"],
             bounds={"layers": LAYERS, "layers that set a value": f"<= {k}", "keys": "core:max_line_length, indentation:tab_space_size", "inline directive": "present/absent"},
             make=make(k), replay=replay(k),
             stubs=["none: real .sqlfluff files in a temp tree, HOME and cwd redirected; which layer sets which key is solver-forked"],
             outside=["toml/pyproject files", "path-valued settings", "plugin default configs"],
             witnesses_required=["two_layers", "inline"], sharded=True, timeout_s=900 if tier == "quick" else 2400)
        for k in ([2] if tier == "quick" else [3])
    ] + [Unit(name="c27.nested_combine", functions=["sqlfluff.core.helpers.dict.nested_combine"],
              bounds={"dicts": 3, "shape": "flat key + one section with two keys (one list-valued)"}, make=make_combine(), replay="concrete",
              witnesses_required=["nested"], sharded=True, timeout_s=300)]
