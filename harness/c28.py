"""C28 Parse output is a faithful serialisation of the tree (to_tuple / structural_simplify / as_record kernel)."""
from __future__ import annotations

from lib.runner import Unit
from symlite.values import choose, fresh_bool, fresh_int

from sqlfluff.core.parser.markers import PositionMarker
from sqlfluff.core.parser.segments import BaseSegment, CodeSegment, Indent, WhitespaceSegment
from sqlfluff.core.templaters import TemplatedFile

KNOWN = {}
TYPES = ["x", "y"]
RAWS = ["a", "bb", " "]
POS_KEYS = {"start_line_no", "start_line_pos", "start_file_pos", "end_line_no", "end_line_pos", "end_file_pos"}
_CLS = {}


def node_class(t):
    if t not in _CLS:
        _CLS[t] = type(f"N_{t}", (BaseSegment,), {"type": t, "can_start_end_non_code": True})
    return _CLS[t]


def gen(c, tag, depth, max_children, plan):
    """Plan a tree: returns nested spec ('leaf', type, raw) | ('node', type, [children])."""
    raws = plan or RAWS
    if depth == 0 or not bool(fresh_bool(c, f"{tag}_inner")):
        return ("leaf", choose(c, f"{tag}_type", TYPES), choose(c, f"{tag}_raw", raws))
    n = int(fresh_int(c, f"{tag}_n", 1, max_children))
    return ("node", choose(c, f"{tag}_type", TYPES), [gen(c, f"{tag}{i}", depth - 1, max_children, plan) for i in range(n)])


def spec_leaves(spec):
    if spec[0] == "leaf":
        return [spec[2]]
    out = []
    for ch in spec[2]:
        out += spec_leaves(ch)
    return out


def build(spec, tf, pos):
    if spec[0] == "leaf":
        raw = spec[2]
        cls = WhitespaceSegment if raw.isspace() else CodeSegment
        seg = cls(raw, PositionMarker(slice(pos[0], pos[0] + len(raw)), slice(pos[0], pos[0] + len(raw)), tf), instance_types=(spec[1],))
        pos[0] += len(raw)
        return seg
    kids = tuple(build(ch, tf, pos) for ch in spec[2])
    return node_class(spec[1])(kids)


def record_leaves(rec):
    """In-order leaf texts of a record produced by as_record (dict or list of single-key dicts)."""
    out = []
    if isinstance(rec, list):
        for r in rec:
            out += record_leaves(r)
        return out
    for k, v in rec.items():
        if k in POS_KEYS:
            continue
        if isinstance(v, str):
            out.append(v)
        elif v is None:
            pass
        else:
            out += record_leaves(v)
    return out


def shape(spec):
    return (spec[1], None) if spec[0] == "leaf" else (spec[1], [shape(ch) for ch in spec[2]])


def record_shape(rec):
    """[(type, children-shape or None)] for the node keys of a record, in order."""
    items = []
    for d in (rec if isinstance(rec, list) else [rec]):
        for k, v in d.items():
            if k in POS_KEYS:
                continue
            items.append((k, None if isinstance(v, str) or v is None else record_shape(v)))
    return items


def make(depth, max_children, max_top, raws):
    def factory(excluded=frozenset()):
        def harness(c):
            spec = ("node", "file", [gen(c, f"t{i}", depth, max_children, raws) for i in range(int(fresh_int(c, "n_top", 1, max_top)))])
            text = "".join(spec_leaves(spec))
            tf = TemplatedFile.from_string(text)
            tree = build(spec, tf, [0])
            with_pos = bool(fresh_bool(c, "include_position"))
            rec = tree.as_record(show_raw=True, include_position=with_pos)  # REAL to_tuple + structural_simplify
            leaves = record_leaves(rec)
            ok = leaves == spec_leaves(spec) and "".join(leaves) == text
            got_shape = record_shape(rec)
            ok = ok and got_shape == [shape(spec)]
            if any(isinstance(v, list) for v in _walk_values(rec)):
                c.witness("duplicate_keys_kept_as_list")
            if with_pos:
                c.witness("with_positions")
            return ok
        return harness
    return factory


def make_wide(max_n, types):
    """One node with n leaf children (n up to max_n, so that the number of children passes the number of bookkeeping keys
    a record can carry), each child's type forked."""
    def factory(excluded=frozenset()):
        def harness(c):
            n = int(fresh_int(c, "n_children", 1, max_n))
            spec = ("node", "file", [("node", "x", [("leaf", choose(c, f"k{i}_type", types), "a") for i in range(n)])])
            text = "".join(spec_leaves(spec))
            tree = build(spec, TemplatedFile.from_string(text), [0])
            with_pos = bool(fresh_bool(c, "include_position"))
            rec = tree.as_record(show_raw=True, include_position=with_pos)  # REAL
            leaves = record_leaves(rec)
            ok = leaves == spec_leaves(spec) and record_shape(rec) == [shape(spec)]
            if with_pos and n >= 7:
                c.witness("more_children_than_position_keys")
            if len({ch[1] for ch in spec[2][0][2]}) < n:
                c.witness("duplicate_types")
            return ok
        return harness
    return factory


def _walk_values(rec):
    if isinstance(rec, list):
        yield rec
        for r in rec:
            yield from _walk_values(r)
    elif isinstance(rec, dict):
        for v in rec.values():
            yield v
            yield from _walk_values(v)


def units(tier, seed):
    # (depth, children per node, top-level children, leaf texts)
    cfg = [(1, 2, 2, RAWS), (2, 2, 1, ["a"])] if tier == "quick" else [(1, 2, 3, RAWS), (2, 2, 2, ["a"]), (1, 3, 2, ["a", " "])]
    return [Unit(
        name=f"c28.as_record[depth {d}, <= {m} children, <= {t} top-level, {len(r)} texts]",
        functions=["sqlfluff.core.parser.segments.base.BaseSegment.to_tuple", "BaseSegment.structural_simplify", "BaseSegment.as_record",
                   "RawSegment.to_tuple"],
        bounds={"depth": d, "children per node": m, "top-level children": t, "type names": TYPES + ["(duplicates exercised)"], "raws": r, "positions": "with/without"},
        make=make(d, m, t, r), replay="concrete",
        stubs=["none: real segment classes; shapes, type names and texts are solver-forked choices"],
        outside=["CLI parse command formatting (human/yaml/json writers)"],
        witnesses_required=["duplicate_keys_kept_as_list", "with_positions"], sharded=True, timeout_s=600 if tier == "quick" else 1800)
        for d, m, t, r in cfg] + [Unit(
        name=f"c28.as_record_wide[<= {wn} children, {len(wt)} type names]",
        functions=["sqlfluff.core.parser.segments.base.BaseSegment.structural_simplify", "BaseSegment.to_tuple", "BaseSegment.as_record"],
        bounds={"children of one node": f"1..{wn}", "type names": wt, "positions": "with/without"},
        make=make_wide(wn, wt), replay="concrete", stubs=["none: real segment classes"],
        witnesses_required=["more_children_than_position_keys", "duplicate_types"], sharded=True, timeout_s=600 if tier == "quick" else 1800)
        for wn, wt in ([(10, ["x", "y"])] if tier == "quick" else [(10, ["x", "y"]), (9, ["x", "y", "z"])])]
