"""C29 Dialect definitions are complete: reference closure (z3 Datalog over the live grammar graph) + lexer totality."""
from __future__ import annotations

import json
import os
import time

import z3

from lib.runner import Outcome, Unit
from symlite.core import Stats

W = 16


def dangling(label):
    """Datalog: reach(root). reach(y) :- reach(x), edge(x,y). bad(x) :- reach(x), isref(x), not resolved(x)."""
    from models.grammar_graph import Graph
    g = Graph(label)
    S = z3.BitVecSort(W)
    fp = z3.Fixedpoint()
    fp.set(engine="datalog")
    edge = z3.Function("edge", S, S, z3.BoolSort())
    reach = z3.Function("reach", S, z3.BoolSort())
    unresolved = z3.Function("unresolved", S, z3.BoolSort())
    bad = z3.Function("bad", S, z3.BoolSort())
    for f in (edge, reach, unresolved, bad):
        fp.register_relation(f)
    a, b = z3.Consts("a b", S)
    fp.declare_var(a, b)
    fp.rule(reach(b), [reach(a), edge(a, b)])
    fp.rule(bad(a), [reach(a), unresolved(a)])
    v = lambda i: z3.BitVecVal(i, W)  # noqa: E731
    fp.fact(reach(v(g.root)))
    ne = 0
    for i, j in g.edges():
        fp.fact(edge(v(i), v(j)))
        ne += 1
    cands = [n for n in g.nodes if n.kind == "ref" and not n.resolved]
    for n in cands:
        fp.fact(unresolved(v(n.id)))
    out = set()
    t = time.time()
    nq = 0
    # one query per candidate keeps the answer extraction trivial and independent of z3's answer printing
    r = fp.query(bad(a))
    nq += 1
    if r == z3.sat:
        for n in cands:
            nq += 1
            if fp.query(bad(v(n.id))) == z3.sat:
                out.add((n.refname, n.owner))
    return g, out, ne, nq, time.time() - t


def replay_ref(label, name):
    from sqlfluff.core.dialects import dialect_selector
    try:
        dialect_selector(label).ref(name)
    except Exception as e:
        return f"{label}: dialect.ref({name!r}) raises {type(e).__name__}: {str(e)[:120]}"
    return None


def _known_by_dialect():
    p = os.path.join(os.path.dirname(os.path.dirname(os.path.abspath(__file__))), "known_findings.json")
    out = {}
    for k in json.load(open(p)):
        if k["id"].startswith("F1:") and k.get("status") == "known":
            out[k["replay"]["dialect"]] = set(k["replay"]["dangling_refs"])
    return out


def _known_f1(entry):
    """Still failing iff at least one recorded dangling ref of that dialect still does not resolve."""
    label = entry["replay"]["dialect"]
    still = [n for n in entry["replay"]["dangling_refs"] if not n.startswith("<") and replay_ref(label, n)]
    return f"{len(still)} of {len(entry['replay']['dangling_refs'])} recorded refs still dangling, e.g. {still[:3]}" if still else None


class _KnownMap(dict):
    def get(self, k, d=None):
        return _known_f1 if str(k).startswith("F1:") else d


KNOWN = _KnownMap()


def run_closure(excluded):
    from sqlfluff.core.dialects import dialect_readout
    st = Stats()
    known = _known_by_dialect()
    samples, new = [], []
    per = {}
    for d in dialect_readout():
        try:
            g, bad, ne, nq, secs = dangling(d.label)
        except Exception as e:
            return Outcome("", "CEX", st, cex={"dialect": d.label, "load_error": f"{type(e).__name__}: {e}"},
                           cex_kind="dialect failed to load/expand", replayed=f"dialect {d.label} fails to load: {e}")
        st.paths += 1
        st.nontrivial += 1
        st.queries += nq
        st.solver_s += secs
        names = {n for n, _ in bad}
        per[d.label] = {"nodes": len(g.nodes), "edges": ne, "dangling": len(names)}
        allowed = known.get(d.label, set()) if f"F1:{d.label}" in excluded else set()
        for n, owner in sorted(bad):
            if n not in allowed:
                new.append({"dialect": d.label, "ref": n, "owner": owner})
        if len(samples) < 3:
            samples.append({"dialect": d.label, **per[d.label], "example": sorted(names)[:3]})
    if new:
        c = new[0]
        rp = replay_ref(c["dialect"], c["ref"]) if not c["ref"].startswith("<") else f"{c['dialect']}: {c['ref']} not defined"
        return Outcome("", "CEX", st, cex={"new_dangling": new[:20], "count": len(new)}, cex_kind="dangling reference",
                       replayed=rp, samples=samples, extra={"per_dialect": per})
    return Outcome("", "PROVED", st, samples=samples, extra={"per_dialect": per})


def replay_closure(cex):
    if "load_error" in cex:
        from sqlfluff.core.dialects import dialect_selector
        try:
            dialect_selector(cex["dialect"]).get_root_segment()
        except Exception as e:
            return f"dialect {cex['dialect']} fails to load: {e}"
        return None
    for c in cex.get("new_dangling", []):
        if not c["ref"].startswith("<"):
            d = replay_ref(c["dialect"], c["ref"])
            if d:
                return d
    return None


def units(tier, seed):
    from harness.c01 import replay_regex_totality, run_regex_totality
    return [
        Unit(name="c29.closure[all dialects]",
             functions=["sqlfluff.core.dialects.dialect_selector/load_raw_dialect", "Dialect.expand", "Dialect.ref",
                        "Dialect.bracket_sets", "every reachable grammar element of every bundled dialect"],
             bounds={"dialects": "all bundled", "graph": "complete reachable object graph (Ref incl. exclude/terminators, "
                     "elements, delimiters, bracket refs)"},
             run=run_closure, replay=replay_closure,
             stubs=["none: facts are emitted from the live grammar objects; z3 Fixedpoint(engine=datalog) decides reachability"],
             sharded=False, timeout_s=600),
        Unit(name="c29.lexer_totality[all dialects]",
             functions=["live lexer matchers of every bundled dialect (whitespace, newline) + PyLexer last-resort pattern"],
             bounds={"dialects": "all bundled", "string length": "unbounded"},
             run=run_regex_totality, replay=replay_regex_totality, sharded=False, timeout_s=300),
    ]


EXHAUSTIVE = True
