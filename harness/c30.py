"""C30 Edits are applied to disjoint source ranges exactly once."""
from harness.patch_pipeline import pipeline_units

KNOWN = {}


def units(tier, seed):
    if tier == "quick":
        cfg = [("L", 2, 1), ("L", 1, 2), ("LTL", 2, 1), ("LSLEL", 2, 1), ("L", 3, 1)]
        t = 150
    else:
        cfg = [("L", 3, 1), ("L", 2, 2), ("LTL", 3, 1), ("LSLEL", 3, 1), ("LCL", 3, 1), ("LTL", 2, 2),
               ("LSLMLEL", 2, 1), ("L", 4, 1)]
        t = 1500
    return pipeline_units("C30", cfg, t)
