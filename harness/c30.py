"""C30 Edits are applied to disjoint source ranges exactly once."""
from harness.patch_pipeline import pipeline_units

KNOWN = {}


def units(tier, seed):
    if tier == "quick":
        cfg = [("L", 2, 1), ("L", 1, 2), ("LTL", 2, 1), ("LSLEL", 2, 1), ("L", 3, 1)]
        t = 150
    else:
        cfg = [("L", 3, 1), ("L", 2, 2), ("LTL", 3, 1), ("LSLEL", 3, 1), ("LCL", 3, 1), ("LTL", 2, 2),
               ("LSLMLEL", 2, 1), ("L", 4, 1)]
        t = 1500
    return pipeline_units("C30", cfg, t)


# ---------------------------------------------------------------- the call site: Linter.lint_parsed -> LintedFile.fix_string
SRC = "abcdefgh"
OPTS = [(s, ln, r) for s in (1, 2, 3) for ln in (0, 1) for r in ("X", "")]


def _run_site(p0, p1, p_alt):
    """Patches p0, p1 come from the root variant, p_alt (or None) from an alternate variant; returns the fixed text."""
    import sqlfluff.core.linter.linter as lmod
    from sqlfluff.core import FluffConfig
    from sqlfluff.core.linter.common import ParsedString, ParsedVariant
    from sqlfluff.core.linter.patch import FixPatch
    from sqlfluff.core.rules.base import RulePack
    from sqlfluff.core.templaters import TemplatedFile
    tf = TemplatedFile.from_string(SRC)

    def fp(o):
        s, ln, r = o
        return FixPatch(slice(s, s + ln), r, "literal", slice(s, s + ln), SRC[s:s + ln], SRC[s:s + ln])

    def norm(ps):   # what generate_source_patches hands on: de-duplicated, ordered by source start
        out = []
        for p in sorted(ps, key=lambda x: x.source_slice.start):
            if p not in out:
                out.append(p)
        return out
    trees = [type("T", (), {"raw": SRC})(), type("T", (), {"raw": SRC})()]
    per_tree = {id(trees[0]): norm([fp(p0), fp(p1)]), id(trees[1]): norm([fp(p_alt)]) if p_alt else []}
    variants = [ParsedVariant(tf, trees[0], [], [])] + ([ParsedVariant(tf, trees[1], [], [])] if p_alt else [])
    parsed = ParsedString(variants, [], {}, FluffConfig(overrides={"dialect": "ansi"}), "f.sql", SRC)
    real_lfp, real_gsp = lmod.Linter.__dict__["lint_fix_parsed"], lmod.generate_source_patches
    lmod.Linter.lint_fix_parsed = classmethod(lambda cls, tree, config, rule_pack, fix=False, fname=None, templated_file=None, formatter=None: (tree, [], None, []))
    lmod.generate_source_patches = lambda tree, templated_file: list(per_tree[id(tree)])
    try:
        linted = lmod.Linter.lint_parsed(parsed, RulePack([], {}), fix=True)   # REAL
        out, _ = linted.fix_string()                                           # REAL
    finally:
        lmod.Linter.lint_fix_parsed = real_lfp
        lmod.generate_source_patches = real_gsp
    return out


def _explained(out, edits):
    import itertools
    from harness.patch_pipeline import _apply_subset
    uniq = sorted(set(edits))
    for k in range(len(uniq) + 1):
        for sub in itertools.combinations(uniq, k):
            if all(a[1] <= b[0] or b[1] <= a[0] for a, b in itertools.combinations(sub, 2)) and \
                    len({(a[0], a[1]) for a in sub}) == len(sub) and _apply_subset(SRC, list(sub)) == out:
                return True
    return False


def judge_site(p0, p1, p_alt):
    out = _run_site(p0, p1, p_alt)
    edits = [(s, s + ln, r) for s, ln, r in ([p0, p1] + ([p_alt] if p_alt else []))]
    if _explained(out, edits):
        return None
    return (f"source {SRC!r}; root-variant edits {[(s, s + ln, r) for s, ln, r in (p0, p1)]}, alternate-variant edit "
            f"{(p_alt[0], p_alt[0] + p_alt[1], p_alt[2]) if p_alt else None} -> fixed text {out!r}: no set of pairwise-disjoint edits explains it")


def make_site():
    def factory(excluded=frozenset()):
        import sqlfluff.core.linter.linter as lmod
        from symlite.values import NullLogger
        lmod.linter_logger = NullLogger()

        def harness(c):
            from symlite.values import choose, fresh_bool
            p0, p1 = choose(c, "root_edit0", OPTS), choose(c, "root_edit1", OPTS)
            p_alt = choose(c, "alternate_edit", OPTS) if bool(fresh_bool(c, "has_alternate_variant")) else None
            if p_alt is None:
                c.witness("single_variant")
            if p0 != p1 and p0[0] == p1[0] and p0[1] == 0 and p1[1] == 0:
                c.witness("two_insertions_at_one_point")
            return judge_site(p0, p1, p_alt) is None
        return harness
    return factory


def replay_site(cex):
    p0, p1 = OPTS[int(cex.get("root_edit0", 0))], OPTS[int(cex.get("root_edit1", 0))]
    p_alt = OPTS[int(cex.get("alternate_edit", 0))] if cex.get("has_alternate_variant") else None
    return judge_site(p0, p1, p_alt)


_pipeline_only_units = units


def units(tier, seed):  # noqa: F811
    from lib.runner import Unit
    return _pipeline_only_units(tier, seed) + [Unit(
        name="c30.lint_parsed_merge_site", functions=["sqlfluff.core.linter.linter.Linter.lint_parsed (variant patch assembly)", "merge_source_patches",
                                                      "LintedFile.fix_string / _slice_source_file_using_patches / _build_up_fixed_source_string"],
        bounds={"source": SRC, "root-variant edits": "2, each (start 1..3, length 0..1, replacement 'X' or '')", "alternate variant": "absent / 1 edit"},
        make=make_site(), replay=replay_site,
        stubs=["lint_fix_parsed -> no-op", "generate_source_patches -> the forked edits of that variant, de-duplicated and ordered by start "
               "(its documented output)"],
        outside=["templated sources (see the pipeline units)", ">2 variants"],
        witnesses_required=["single_variant", "two_insertions_at_one_point"], sharded=True, timeout_s=600)]
