"""C31 Offset-to-line/column conversion is exact."""
import z3

from lib.runner import Unit
from symlite.values import NLStr, SymInt, fresh_int, lift, sym_len

import sqlfluff.core.templaters.base as tb
import sqlfluff.core.parser.markers as mk
from sqlfluff.core.parser.markers import PositionMarker
from sqlfluff.core.templaters.base import TemplatedFile

KNOWN = {}


def _nlstr(c, K, name="n", J=0):
    n = c.declare(name, z3.Int(name))
    c.assume(n >= 0)
    ps, prev = [], -1
    for i in range(K):
        p = c.declare(f"p{i}", z3.Int(f"p{i}"))
        c.assume(z3.And(p > prev, p < n))
        prev = p
        ps.append(p)
    qs, prev = [], -1
    for j in range(J):   # other line-break characters (form feed ...), at positions distinct from the newlines
        q = c.declare(f"q{j}", z3.Int(f"q{j}"))
        c.assume(z3.And(q > prev, q < n, *[q != p for p in ps]))
        prev = q
        qs.append(q)
    return n, ps, NLStr(n, [SymInt(p) for p in ps], [SymInt(q) for q in qs])


def make_linepos(K, source, J=0):
    def factory(excluded=frozenset()):
        tb.len = sym_len

        def harness(c):
            n, ps, s = _nlstr(c, K, J=J)
            off = fresh_int(c, "off", 0)
            c.assume(off.e <= n)
            nls = list(tb.iter_indices_of_newlines(s))  # REAL newline scan over the abstract text
            tf = TemplatedFile(source_str="", fname="f")   # REAL constructor (whatever state it sets up), then the tables
            # the table under test is filled from the real scan, the other one is poisoned
            tf._source_newlines = nls if source else [SymInt(z3.IntVal(-7))]
            tf._templated_newlines = [SymInt(z3.IntVal(-7))] if source else nls
            line, col = tf.get_line_pos_of_char_pos(off, source=source)
            cnt = z3.Sum([z3.If(p < off.e, 1, 0) for p in ps]) if ps else z3.IntVal(0)
            last = z3.IntVal(-1)
            for p in ps:
                last = z3.If(p < off.e, p, last)
            if K and bool(off > SymInt(ps[-1])):
                c.witness("after_last_newline")
            if K and bool(off == SymInt(ps[0])):
                c.witness("on_newline")
            return z3.And(lift(line) == 1 + cnt, lift(col) == off.e - last, z3.BoolVal(len(nls) == K))
        return harness
    return factory


def replay_linepos(K, source, J=0):
    def replay(cex):
        if "len" in vars(tb):
            del tb.len
        n = int(cex["n"])
        ps = [int(cex[f"p{i}"]) for i in range(K)]
        qs = [int(cex[f"q{j}"]) for j in range(J)]
        off = int(cex["off"])
        text = "".join("\n" if i in ps else "\x0c" if i in qs else "x" for i in range(n))
        tf = TemplatedFile(source_str=text, fname="f") if source else None
        if not source:
            tf = TemplatedFile.from_string(text)
        got = tf.get_line_pos_of_char_pos(off, source=source)
        exp = (1 + text[:off].count("\n"), off - (text.rfind("\n", 0, off)))
        if tuple(got) != exp:
            return f"text={text!r} offset={off}: get_line_pos_of_char_pos -> {got}, expected {exp}"
        idx = list(tb.iter_indices_of_newlines(text))
        want = [i for i, ch in enumerate(text) if ch == "\n"]
        if idx != want:
            return f"text={text!r}: newline index {idx} != positions of the newlines {want} (every later line/column is off)"
        return None
    return replay


def make_history(K1, K2):
    """One TemplatedFile whose source and rendered text have DIFFERENT newline layouts; an arbitrary earlier lookup
    (any offset, either text) precedes the examined lookup (any offset, either text) on the same object."""
    def factory(excluded=frozenset()):
        tb.len = sym_len

        def harness(c):
            from symlite.values import fresh_bool
            n1, ps1, s1 = _nlstr(c, K1, name="n_src")
            # second text: own names
            n2 = c.declare("n_tpl", z3.Int("n_tpl"))
            c.assume(n2 >= 0)
            ps2, prev = [], -1
            for i in range(K2):
                p = c.declare(f"t{i}", z3.Int(f"t{i}"))
                c.assume(z3.And(p > prev, p < n2))
                prev = p
                ps2.append(p)
            s2 = NLStr(n2, [SymInt(p) for p in ps2], [])
            tf = TemplatedFile(source_str="", fname="f")   # REAL constructor, then the two REAL newline scans
            tf._source_newlines = list(tb.iter_indices_of_newlines(s1))
            tf._templated_newlines = list(tb.iter_indices_of_newlines(s2))
            has_prev = bool(fresh_bool(c, "has_earlier_lookup"))
            if has_prev:
                src0 = bool(fresh_bool(c, "earlier_in_source"))
                off0 = fresh_int(c, "earlier_off", 0)
                c.assume(off0.e <= (n1 if src0 else n2))
                tf.get_line_pos_of_char_pos(off0, source=src0)
            src = bool(fresh_bool(c, "in_source"))
            off = fresh_int(c, "off", 0)
            n, ps = (n1, ps1) if src else (n2, ps2)
            c.assume(off.e <= n)
            line, col = tf.get_line_pos_of_char_pos(off, source=src)
            cnt = z3.Sum([z3.If(p < off.e, 1, 0) for p in ps]) if ps else z3.IntVal(0)
            last = z3.IntVal(-1)
            for p in ps:
                last = z3.If(p < off.e, p, last)
            if has_prev and src0 != src and bool(off0 == off):
                c.witness("same_offset_other_text")
            if has_prev and src0 == src:
                c.witness("same_text_twice")
            return z3.And(lift(line) == 1 + cnt, lift(col) == off.e - last)
        return harness
    return factory


def replay_history(K1, K2):
    def replay(cex):
        from sqlfluff.core.templaters.base import RawFileSlice, TemplatedFileSlice
        if "len" in vars(tb):
            del tb.len
        n1, n2 = int(cex["n_src"]), int(cex["n_tpl"])
        ps1 = [int(cex[f"p{i}"]) for i in range(K1)]
        ps2 = [int(cex[f"t{i}"]) for i in range(K2)]
        src_text = "".join("\n" if i in ps1 else "x" for i in range(n1))
        tpl_text = "".join("\n" if i in ps2 else "y" for i in range(n2))
        tf = TemplatedFile(source_str=src_text, fname="f", templated_str=tpl_text,
                           sliced_file=[TemplatedFileSlice("templated", slice(0, n1), slice(0, n2))],
                           raw_sliced=[RawFileSlice(src_text, "templated", 0)])
        hist = ""
        if cex.get("has_earlier_lookup"):
            tf.get_line_pos_of_char_pos(int(cex.get("earlier_off", 0)), source=bool(cex.get("earlier_in_source")))
            hist = f" after a lookup of offset {int(cex.get('earlier_off', 0))} in the {'source' if cex.get('earlier_in_source') else 'rendered'} text"
        src, off = bool(cex.get("in_source")), int(cex.get("off", 0))
        text = src_text if src else tpl_text
        got = tf.get_line_pos_of_char_pos(off, source=src)
        exp = (1 + text[:off].count("\n"), off - (text.rfind("\n", 0, off)))
        if tuple(got) != exp:
            return (f"source={src_text!r} rendered={tpl_text!r}: offset {off} of the {'source' if src else 'rendered'} text{hist} "
                    f"-> {got}, expected {exp}")
        return None
    return replay


def make_infer(K):
    def factory(excluded=frozenset()):
        mk.len = sym_len

        def harness(c):
            n, ps, s = _nlstr(c, K)
            ln = fresh_int(c, "line_no", 1)
            lp = fresh_int(c, "line_pos", 1)
            line, pos = PositionMarker.infer_next_position(s, ln, lp)
            if K == 0:
                return z3.And(lift(line) == ln.e, lift(pos) == lp.e + n)
            return z3.And(lift(line) == ln.e + K, lift(pos) == n - ps[-1])
        return harness
    return factory


def replay_infer(K):
    def replay(cex):
        for nm in ("len",):
            if nm in vars(mk):
                delattr(mk, nm)
        n = int(cex["n"])
        ps = [int(cex[f"p{i}"]) for i in range(K)]
        text = "".join("\n" if i in ps else "x" for i in range(n))
        ln, lp = int(cex["line_no"]), int(cex["line_pos"])
        got = PositionMarker.infer_next_position(text, ln, lp)
        exp = (ln + text.count("\n"), lp + len(text) if "\n" not in text else len(text) - text.rfind("\n"))
        if tuple(got) != exp:
            return f"raw={text!r} at ({ln},{lp}): infer_next_position -> {got}, expected {exp}"
        return None
    return replay


def units(tier, seed):
    kmax = 6 if tier == "quick" else 12
    us = []
    for K in range(kmax + 1):
        for source in (True, False):
            us.append(Unit(
                name=f"c31.linepos[K={K},{'source' if source else 'templated'}]",
                functions=["sqlfluff.core.templaters.base.iter_indices_of_newlines",
                           "sqlfluff.core.templaters.base.TemplatedFile.get_line_pos_of_char_pos"],
                bounds={"newlines": K, "text_length": "unbounded", "offset": "0..len (unbounded)"},
                make=make_linepos(K, source), replay=replay_linepos(K, source),
                stubs=["text = NLStr abstraction: observable only through its length and newline positions (str.find('\\n', i))"],
                assumptions=["offsets satisfy 0 <= offset <= len(text)"],
                outside=[f"texts with more than {kmax} newlines"],
                witnesses_required=(["after_last_newline", "on_newline"] if K else []),
                sharded=False, timeout_s=300))
        us.append(Unit(
            name=f"c31.infer_next_position[K={K}]",
            functions=["sqlfluff.core.parser.markers.PositionMarker.infer_next_position"],
            bounds={"newlines_in_raw": K, "raw_length": "unbounded", "line_no/line_pos": ">=1 unbounded"},
            make=make_infer(K), replay=replay_infer(K),
            stubs=["raw = NLStr abstraction (len, split('\\n'))", "markers.len = sym_len"],
            outside=[f"raws with more than {kmax} newlines"],
            sharded=False, timeout_s=300))
    for K1, K2 in ([(1, 0), (1, 2), (2, 1)] if tier == "quick" else [(a, b) for a in range(4) for b in range(4)]):
        us.append(Unit(
            name=f"c31.linepos_history[source K={K1},rendered K={K2}]",
            functions=["sqlfluff.core.templaters.base.TemplatedFile.__init__", "TemplatedFile.get_line_pos_of_char_pos",
                       "sqlfluff.core.templaters.base.iter_indices_of_newlines"],
            bounds={"newlines in source": K1, "newlines in rendered text": K2, "text lengths": "unbounded, independent",
                    "earlier lookups on the same object": "0 or 1 (any offset, either text)"},
            make=make_history(K1, K2), replay=replay_history(K1, K2),
            stubs=["two NLStr texts with independent newline layouts; the object is built by the real constructor and its two "
                   "newline tables are then filled by the real scan of the abstract texts"],
            outside=["more than one earlier lookup"],
            witnesses_required=["same_offset_other_text", "same_text_twice"], sharded=False, timeout_s=300))
    for K in ([0, 1, 2] if tier == "quick" else [0, 1, 2, 3, 4]):
        us.append(Unit(
            name=f"c31.linepos[K={K},+1 non-LF line break,source]",
            functions=["sqlfluff.core.templaters.base.iter_indices_of_newlines", "TemplatedFile.get_line_pos_of_char_pos"],
            bounds={"newlines": K, "other line-break characters (form feed etc.)": 1, "text_length": "unbounded"},
            make=make_linepos(K, True, J=1), replay=replay_linepos(K, True, J=1),
            stubs=["text = NLStr: length, newline positions and the position of one character that str.splitlines() treats as a "
                   "line boundary but that is not a newline"],
            sharded=False, timeout_s=300))
    return us


# ---------------------------------------------------------------- PositionMarker: source / rendered position of a marker
def make_marker(K1, K2):
    """A marker at arbitrary source and rendered offsets of a file with independent newline layouts, whose WORKING position
    may have been moved (as the fix loop does): source_position() and templated_position() still report the line/column of
    its source / rendered offset."""
    def factory(excluded=frozenset()):
        tb.len = sym_len

        def harness(c):
            from symlite.values import fresh_bool
            n1, ps1, s1 = _nlstr(c, K1, name="n_src")
            n2 = c.declare("n_tpl", z3.Int("n_tpl"))
            c.assume(n2 >= 0)
            ps2, prev = [], -1
            for i in range(K2):
                p = c.declare(f"t{i}", z3.Int(f"t{i}"))
                c.assume(z3.And(p > prev, p < n2))
                prev = p
                ps2.append(p)
            s2 = NLStr(n2, [SymInt(p) for p in ps2], [])
            tf = TemplatedFile(source_str="", fname="f")
            tf._source_newlines = list(tb.iter_indices_of_newlines(s1))
            tf._templated_newlines = list(tb.iter_indices_of_newlines(s2))
            a, ta = fresh_int(c, "source_offset", 0), fresh_int(c, "rendered_offset", 0)
            c.assume(a.e <= n1)
            c.assume(ta.e <= n2)
            pm = PositionMarker(slice(a, a), slice(ta, ta), tf)
            if bool(fresh_bool(c, "working_position_moved")):
                wl, wp = fresh_int(c, "working_line", 1), fresh_int(c, "working_pos", 1)
                pm = pm.with_working_position(wl, wp)
                c.witness("working_position_moved")
            sl, sc = pm.source_position()       # REAL
            tl, tc = pm.templated_position()    # REAL

            def ref(ps, off):
                cnt = z3.Sum([z3.If(p < off, 1, 0) for p in ps]) if ps else z3.IntVal(0)
                last = z3.IntVal(-1)
                for p in ps:
                    last = z3.If(p < off, p, last)
                return 1 + cnt, off - last
            rl, rc = ref(ps1, a.e)
            ql, qc = ref(ps2, ta.e)
            return z3.And(lift(sl) == rl, lift(sc) == rc, lift(tl) == ql, lift(tc) == qc)
        return harness
    return factory


def replay_marker(K1, K2):
    def replay(cex):
        from sqlfluff.core.templaters.base import RawFileSlice, TemplatedFileSlice
        if "len" in vars(tb):
            del tb.len
        n1, n2 = int(cex["n_src"]), int(cex["n_tpl"])
        ps1 = [int(cex[f"p{i}"]) for i in range(K1)]
        ps2 = [int(cex[f"t{i}"]) for i in range(K2)]
        src = "".join("\n" if i in ps1 else "x" for i in range(n1))
        tpl = "".join("\n" if i in ps2 else "y" for i in range(n2))
        tf = TemplatedFile(source_str=src, fname="f", templated_str=tpl,
                           sliced_file=[TemplatedFileSlice("templated", slice(0, n1), slice(0, n2))], raw_sliced=[RawFileSlice(src, "templated", 0)])
        a, ta = int(cex.get("source_offset", 0)), int(cex.get("rendered_offset", 0))
        pm = PositionMarker(slice(a, a), slice(ta, ta), tf)
        moved = ""
        if cex.get("working_position_moved"):
            pm = pm.with_working_position(int(cex.get("working_line", 1)), int(cex.get("working_pos", 1)))
            moved = f" after its working position was set to {pm.working_loc}"
        exp_s = (1 + src[:a].count("\n"), a - src.rfind("\n", 0, a))
        exp_t = (1 + tpl[:ta].count("\n"), ta - tpl.rfind("\n", 0, ta))
        got_s, got_t = tuple(pm.source_position()), tuple(pm.templated_position())
        if (got_s, got_t) != (exp_s, exp_t):
            return (f"source={src!r} rendered={tpl!r}: marker at source offset {a} / rendered offset {ta}{moved} reports source {got_s} "
                    f"(expected {exp_s}) and rendered {got_t} (expected {exp_t})")
        return None
    return replay


_units_tables = units


def units(tier, seed):  # noqa: F811
    ks = [(1, 0), (1, 2)] if tier == "quick" else [(a, b) for a in range(3) for b in range(3)]
    return _units_tables(tier, seed) + [Unit(
        name=f"c31.marker_positions[source K={k1},rendered K={k2}]",
        functions=["sqlfluff.core.parser.markers.PositionMarker.__post_init__/source_position/templated_position/with_working_position",
                   "TemplatedFile.get_line_pos_of_char_pos"],
        bounds={"newlines in source": k1, "newlines in rendering": k2, "offsets": "unbounded", "working position": "as constructed / moved anywhere"},
        make=make_marker(k1, k2), replay=replay_marker(k1, k2),
        stubs=["two NLStr texts with independent newline layouts behind a real-constructed TemplatedFile"],
        witnesses_required=["working_position_moved"], sharded=False, timeout_s=300) for k1, k2 in ks]
