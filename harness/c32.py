"""C32 Linting is read-only and repeatable (narrow: shared-state kernels + order-symbolic repeat lint on real files)."""
from __future__ import annotations

import json
import os
import shutil
import subprocess
import sys
import tempfile

from lib.runner import Unit
from symlite.values import choose, fresh_bool, fresh_int

from harness import c06

KNOWN = {}

POOL = {
    "a_excl.sql": "-- sqlfluff:exclude_rules:LT01\nSELECT  a FROM t\n",   # sorts first: its inline rule selection must stay its own
    "plain.sql": "SELECT  a,b FROM t\n",
    "blocks.sql": "SELECT {% for c in ['x', 'y'] %}{{ c }}, {% endfor %}1 FROM t\n",
    "broken.sql": "SELECT 1 +\n",
    "noqa.sql": "SELECT  a FROM t  -- noqa: LT01\nSELECT  b FROM t\n",
    "inline.sql": "-- sqlfluff:max_line_length:20\nSELECT aaaaaaaaaaaaaaaa, bbbbbbbbbbbbbbbbbbbb FROM t\n",
}
_DIR = None
_BASE = None
_SCRIPT = r'''
import json, sys
from sqlfluff.core import FluffConfig, Linter
out = {}
for p in sys.argv[1:]:
    lin = Linter(config=FluffConfig(overrides={"dialect": "ansi"}))
    r = lin.lint_path(p)
    out[p] = [(v["code"], v["start_line_no"], v["start_line_pos"], v["description"]) for rec in r.as_records() for v in rec["violations"]]
print(json.dumps(out))
'''


def tree():
    global _DIR
    if _DIR is None:
        _DIR = tempfile.mkdtemp(prefix="c32_")
        import atexit
        atexit.register(shutil.rmtree, _DIR, True)
        for n, s in POOL.items():
            open(os.path.join(_DIR, n), "w").write(s)
    return _DIR


def baseline():
    """Each file linted alone in a FRESH process (one subprocess per file)."""
    global _BASE
    if _BASE is None:
        _BASE = {}
        d = tree()
        for n in POOL:
            p = os.path.join(d, n)
            out = subprocess.run([sys.executable, "-c", _SCRIPT, p], capture_output=True, text=True, timeout=300)
            _BASE[n] = [tuple(x) for x in json.loads(out.stdout.strip().splitlines()[-1])[p]]
    return _BASE


def lint_one(lin, p):
    r = lin.lint_path(p)
    return [(v["code"], v["start_line_no"], v["start_line_pos"], v["description"]) for rec in r.as_records() for v in rec["violations"]]


def make_repeat(n_ops):
    def factory(excluded=frozenset()):
        def harness(c):
            from sqlfluff.core import FluffConfig, Linter
            d = tree()
            base = baseline()
            names = list(POOL)
            snap = {n: (open(os.path.join(d, n), "rb").read(), os.stat(os.path.join(d, n)).st_mtime_ns) for n in names}
            share_linter = bool(fresh_bool(c, "reuse_linter_object"))
            lin = Linter(config=FluffConfig(overrides={"dialect": "ansi"}))
            ok = True
            seen = []
            for k in range(n_ops):
                n = choose(c, f"op{k}_file", names)
                # the whole-directory run is offered as the LAST operation only when there are 3 (keeps the thorough tier finite)
                kinds = ["lint", "parse", "render"] + (["lint_whole_dir"] if (n_ops < 3 or k == n_ops - 1) else [])
                op = choose(c, f"op{k}_kind", kinds)
                L = lin if share_linter else Linter(config=FluffConfig(overrides={"dialect": "ansi"}))
                p = os.path.join(d, n)
                if op == "lint":
                    got = [tuple(x) for x in lint_one(L, p)]
                    if got != base[n]:
                        ok = False
                elif op == "lint_whole_dir":
                    # one run over every file of the directory: each file's result must still equal its own baseline
                    res = L.lint_paths((d,))
                    for rec in res.as_records():
                        nm = os.path.basename(rec["filepath"])
                        got = [(v["code"], v["start_line_no"], v["start_line_pos"], v["description"]) for v in rec["violations"]]
                        if got != base[nm]:
                            ok = False
                    c.witness("whole_directory_run")
                elif op == "parse":
                    list(L.parse_path(p))
                else:
                    L.render_file(p, L.config)
                seen.append(n)
            for n in names:
                if (open(os.path.join(d, n), "rb").read(), os.stat(os.path.join(d, n)).st_mtime_ns) != snap[n]:
                    ok = False
            if len(set(seen)) < len(seen):
                c.witness("same_file_twice")
            if "blocks.sql" in seen and seen.index("blocks.sql") < len(seen) - 1:
                c.witness("after_templated_file")
            return ok
        return harness
    return factory


def make_ref_map():
    """allowed_rule_ref_map: calling it again with the same arguments gives the same map, the rule entries of the shared
    map are never altered, and the expansion of rule references is the same whether or not it was called before."""
    def factory(excluded=frozenset()):
        def harness(c):
            from sqlfluff.core.linter.linter import Linter
            from sqlfluff.core.rules.noqa import IgnoreMask
            base = {"LT01": {"LT01"}, "layout.spacing": {"LT01"}, "AM04": {"AM04"}, "all": {"LT01", "AM04"}}
            exc = [None, "LT01", "AM*", "layout.spacing,AM04", "PRS"]
            first = choose(c, "earlier_call", exc)
            second = choose(c, "this_call", exc)
            shared = {k: set(v) for k, v in base.items()}
            had_earlier = bool(fresh_bool(c, "has_earlier_call"))
            if had_earlier:
                Linter.allowed_rule_ref_map(shared, first)   # REAL (mutates the shared map)
            got = Linter.allowed_rule_ref_map(shared, second)  # REAL
            fresh = Linter.allowed_rule_ref_map({k: set(v) for k, v in base.items()}, second)
            ok = all(shared[k] == base[k] for k in base)
            # observable use: how noqa references expand against the returned map
            for ref in ("LT01", "all", "AM*", "PRS", "layout.*"):
                a = IgnoreMask._parse_noqa(f"noqa: {ref}", 1, 1, got)
                b = IgnoreMask._parse_noqa(f"noqa: {ref}", 1, 1, fresh)
                if (a.rules if a else None) != (b.rules if b else None):
                    ok = False
            if had_earlier and first:
                c.witness("map_mutated_by_earlier_call")
            return ok
        return harness
    return factory


def units(tier, seed):
    n = 2 if tier == "quick" else 3
    baseline()  # build the temp tree and the fresh-process baseline in the parent, workers inherit them
    return [
        Unit(name=f"c32.repeat_lint[{n} operations]", functions=["sqlfluff.core.linter.linter.Linter.lint_path/parse_path/render_file", "BlockTracker (class state)",
             "load_config_file_as_dict (@cache)", "Linter.allowed_rule_ref_map"],
             bounds={"operations": n, "operation": "lint / parse / render / lint the whole directory in one run", "files": list(POOL), "linter object": "shared or fresh per operation"},
             make=make_repeat(n), replay="concrete",
             stubs=["none: real files in a temp dir; the baseline is each file linted alone in a fresh subprocess; the operation "
                    "sequence is solver-forked"],
             outside=["'never opens a file for writing' as a syntactic fact", "fix mode"],
             witnesses_required=["same_file_twice", "after_templated_file", "whole_directory_run"], sharded=True, timeout_s=900 if tier == "quick" else 2400),
        Unit(name="c32.allowed_rule_ref_map", functions=["sqlfluff.core.linter.linter.Linter.allowed_rule_ref_map", "IgnoreMask._parse_noqa"],
             bounds={"disable_noqa_except values": 5, "earlier call": "none or any of 5"}, make=make_ref_map(), replay="concrete",
             witnesses_required=["map_mutated_by_earlier_call"], sharded=False, timeout_s=120),
        Unit(name="c32.block_tracker_history", functions=["sqlfluff.core.parser.lexer.BlockTracker", "_iter_segments"],
             bounds={"file A": "4 shapes incl. an unclosed block", "file B": "3 shapes", "lengths": "symbolic"},
             make=c06.make_history(), replay="concrete", witnesses_required=["compared"], sharded=True, timeout_s=600),
    ]
