"""C33 Violations are reported once and in source order (dedup kernel)."""
import itertools

import z3

from lib.runner import Unit
from symlite.values import NullLogger, SymInt, SymSet, fresh_bool, fresh_int, lift

import sqlfluff.core.linter.linted_file as lfmod
from sqlfluff.core.errors import SQLBaseError, SQLLintError, SQLParseError
from sqlfluff.core.linter.linted_file import LintedFile
from sqlfluff.core.parser.segments.base import SourceFix

KNOWN = {}


class _Rule:
    def __init__(self, code):
        self.code = code
        self.name = "stub"


class _Seg:
    def __init__(self, raw, source_fixes=()):
        self.raw = raw
        self.source_fixes = list(source_fixes)
        self.pos_marker = None

    def __bool__(self):
        return False  # SQLLintError.__init__: `segment.pos_marker if segment else None`


class _Fix:
    def __init__(self, edit):
        self.edit = edit


def _bind():
    lfmod.set = SymSet
    lfmod.linter_logger = NullLogger()


def _build(c, N, get):
    """N violations; kinds enumerated by fork: 0 = lint error without fix, 1 = lint error with a one-segment fix
    (optionally carrying a source fix), 2 = parse error."""
    vs, sigs = [], []
    for i in range(N):
        line = get(f"line{i}", 1)
        pos = get(f"pos{i}", 1)
        code = get(f"code{i}", 0, 1)
        desc = get(f"desc{i}", 0, 1)
        kind = int(get(f"kind{i}", 0, 2))
        if kind == 2:
            v = SQLParseError(desc, line_no=line, line_pos=pos)
            sig = ("PRS", line, pos, desc, -1, -1)
        else:
            fixes, fr, sf = [], -1, -1
            if kind == 1:
                fr = get(f"fixraw{i}", 0, 1)
                sfs = []
                if int(get(f"hassrcfix{i}", 0, 1)):
                    sf = get(f"srcfix{i}", 0, 1)
                    sfs = [SourceFix("e", slice(sf, sf + 1), slice(0, 0))]
                fixes = [_Fix([_Seg(fr, sfs)])]
            v = SQLLintError(desc, _Seg("anchor"), _Rule(code), fixes=fixes)
            v.line_no, v.line_pos = line, pos
            sig = (code, line, pos, desc, fr, sf)
        vs.append(v)
        sigs.append(sig)
    return vs, sigs


def _sig_eq(a, b):
    if isinstance(a[0], str) != isinstance(b[0], str):
        return z3.BoolVal(False)
    conj = []
    for x, y in zip(a, b):
        if isinstance(x, str):
            conj.append(z3.BoolVal(x == y))
        else:
            conj.append(lift(x) == lift(y))
    return z3.And(*conj)


def make(N):
    def factory(excluded=frozenset()):
        _bind()

        def harness(c):
            def get(name, lo, hi=None):
                return fresh_int(c, name, lo, hi)
            vs, sigs = _build(c, N, get)
            out = LintedFile.deduplicate_in_source_space(list(vs))
            idx = []
            for o in out:
                k = [i for i, v in enumerate(vs) if v is o]
                if len(k) != 1:
                    return False  # an output that is not one of the inputs
                idx.append(k[0])
            ok = z3.BoolVal(len(set(idx)) == len(idx))
            # sorted in source order
            for a, b in zip(idx, idx[1:]):
                la, pa, lb, pb = lift(vs[a].line_no), lift(vs[a].line_pos), lift(vs[b].line_no), lift(vs[b].line_pos)
                ok = z3.And(ok, z3.Or(la < lb, z3.And(la == lb, pa <= pb)))
            # no two outputs share a signature
            for a, b in itertools.combinations(idx, 2):
                ok = z3.And(ok, z3.Not(_sig_eq(sigs[a], sigs[b])))
            # every input's signature is represented
            for i in range(N):
                ok = z3.And(ok, z3.Or(*[_sig_eq(sigs[i], sigs[j]) for j in idx]) if idx else z3.BoolVal(False))
            if len(out) < N:
                c.witness("deduplicated")
            if len(out) == N and N > 1:
                c.witness("all_kept")
            return ok
        return harness
    return factory


# ---------------------------------------------------------------- the call site: Linter.lint_parsed
SOURCES = ["templating", "variant0", "variant1", "root_lint", "alt_lint"]


def _build_parsed(N, get, choose_src, has_root):
    """A real ParsedString with two real ParsedVariants; N violations, each placed (by fork) among the templating
    violations, a variant's parse violations, the root variant's lint results or the alternate variant's lint results."""
    from sqlfluff.core import FluffConfig
    from sqlfluff.core.errors import SQLTemplaterError
    from sqlfluff.core.linter.common import ParsedString, ParsedVariant
    vs, sigs, where = [], [], []
    buckets = {k: [] for k in SOURCES}
    for i in range(N):
        line, pos = get(f"line{i}", 1), get(f"pos{i}", 1)
        desc = get(f"desc{i}", 0, 1)
        src = choose_src(i)
        if not has_root and src in ("root_lint", "alt_lint"):
            src = "variant0"
        if src in ("root_lint", "alt_lint"):
            code = get(f"code{i}", 0, 1)
            v = SQLLintError(desc, _Seg("anchor"), _Rule(code), fixes=[])
            v.line_no, v.line_pos = line, pos
            sig = (code, line, pos, desc, -1, -1)
        elif src == "templating":
            v = SQLTemplaterError(desc, line_no=line, line_pos=pos)
            sig = ("TMP", line, pos, desc, -1, -1)
        else:
            v = SQLParseError(desc, line_no=line, line_pos=pos)
            sig = ("PRS", line, pos, desc, -1, -1)
        buckets[src].append(v)
        vs.append(v)
        sigs.append(sig)
        where.append(src)
    trees = (object(), object()) if has_root else (None, None)
    variants = [ParsedVariant(None, trees[k], [], buckets[f"variant{k}"]) for k in range(2)]
    parsed = ParsedString(variants, buckets["templating"], {}, FluffConfig(overrides={"dialect": "ansi"}), "f.sql", "select 1\n")
    return parsed, variants, buckets, vs, sigs, where


def _run_lint_parsed(parsed, variants, buckets):
    import sqlfluff.core.linter.linter as lmod
    from sqlfluff.core.rules.base import RulePack

    def stub_lint_fix_parsed(cls, tree, config, rule_pack, fix=False, fname=None, templated_file=None, formatter=None):
        return tree, list(buckets["root_lint"] if tree is variants[0].tree else buckets["alt_lint"]), None, []
    real = lmod.Linter.__dict__["lint_fix_parsed"]
    lmod.Linter.lint_fix_parsed = classmethod(stub_lint_fix_parsed)
    try:
        return lmod.Linter.lint_parsed(parsed, RulePack([], {}), fix=False)   # REAL
    finally:
        lmod.Linter.lint_fix_parsed = real


def _oracle(vs, sigs, out, must_keep=None):
    idx = []
    for o in out:
        k = [i for i, v in enumerate(vs) if v is o]
        if len(k) != 1:
            return None
        idx.append(k[0])
    ok = z3.BoolVal(len(set(idx)) == len(idx))
    for a, b in zip(idx, idx[1:]):
        la, pa, lb, pb = lift(vs[a].line_no), lift(vs[a].line_pos), lift(vs[b].line_no), lift(vs[b].line_pos)
        ok = z3.And(ok, z3.Or(la < lb, z3.And(la == lb, pa <= pb)))
    for a, b in itertools.combinations(idx, 2):
        ok = z3.And(ok, z3.Not(_sig_eq(sigs[a], sigs[b])))
    for i in (range(len(vs)) if must_keep is None else must_keep):
        ok = z3.And(ok, z3.Or(*[_sig_eq(sigs[i], sigs[j]) for j in idx]) if idx else z3.BoolVal(False))
    return ok


def make_call_site(N):
    def factory(excluded=frozenset()):
        _bind()
        import sqlfluff.core.linter.linter as lmod
        lmod.linter_logger = NullLogger()

        def harness(c):
            from symlite.values import choose
            has_root = bool(fresh_bool(c, "has_root_variant"))
            parsed, variants, buckets, vs, sigs, where = _build_parsed(
                N, lambda n, lo, hi=None: fresh_int(c, n, lo, hi), lambda i: choose(c, f"from{i}", SOURCES), has_root)
            linted = _run_lint_parsed(parsed, variants, buckets)
            out = [v for v in linted.violations if any(v is x for x in vs)]
            # with a root variant, parse errors of the alternate variant are deliberately not surfaced
            keep = [i for i, w in enumerate(where) if not (has_root and w == "variant1")]
            ok = _oracle(vs, sigs, out, keep)
            if ok is None:
                return False
            if not has_root:
                c.witness("no_root_variant")
            if has_root and "alt_lint" in where and "root_lint" in where:
                c.witness("root_and_alternate_variant")
            if len(out) < N:
                c.witness("deduplicated")
            return ok
        return harness
    return factory


def replay_call_site(N):
    def rp(cex):
        if "set" in vars(lfmod):
            del lfmod.set
        has_root = bool(cex.get("has_root_variant"))
        parsed, variants, buckets, vs, sigs, where = _build_parsed(
            N, lambda n, lo, hi=None: int(cex.get(n, lo)), lambda i: SOURCES[int(cex.get(f"from{i}", 0))], has_root)
        for v in vs:
            if isinstance(v.description, int):
                v.description = f"d{v.description}"
        linted = _run_lint_parsed(parsed, variants, buckets)
        out = [v for v in linted.violations if any(v is x for x in vs)]
        keys = [(o.line_no, o.line_pos) for o in out]
        problems = []
        if keys != sorted(keys):
            problems.append(f"violations not in source order: {keys}")
        osig = [sigs[[i for i, v in enumerate(vs) if v is o][0]] for o in out]
        if len(set(osig)) != len(osig):
            problems.append(f"the same violation is reported more than once: {osig}")
        need = {sg for sg, w in zip(sigs, where) if not (has_root and w == "variant1")}
        if need - set(osig):
            problems.append(f"violation lost: {sorted(need - set(osig), key=str)}")
        return (f"lint_parsed with {'a' if has_root else 'no'} root variant, violations from {where}: " + "; ".join(problems)) if problems else None
    return rp


def replay(N):
    def rp(cex):
        if "set" in vars(lfmod):
            del lfmod.set

        def get(name, lo, hi=None):
            return int(cex.get(name, lo))
        vs, sigs = _build(None, N, get)
        for v in vs:
            if isinstance(v.description, int):
                v.description = f"d{v.description}"
        out = LintedFile.deduplicate_in_source_space(list(vs))
        keys = [(o.line_no, o.line_pos) for o in out]
        problems = []
        if keys != sorted(keys):
            problems.append(f"output not in source order: {keys}")
        osig = [sigs[[i for i, v in enumerate(vs) if v is o][0]] for o in out]
        if len(set(osig)) != len(osig):
            problems.append(f"duplicate signature reported twice: {osig}")
        if set(osig) != set(sigs):
            problems.append(f"violation lost: input signatures {sorted(set(sigs), key=str)} output {sorted(set(osig), key=str)}")
        return "; ".join(problems) or None
    return rp


def units(tier, seed):
    ns = [2, 3] if tier == "quick" else [2, 3, 4]
    return [Unit(
        name=f"c33.dedupe[N={N}]",
        functions=["sqlfluff.core.linter.linted_file.LintedFile.deduplicate_in_source_space",
                   "sqlfluff.core.errors.SQLBaseError.source_signature/check_tuple",
                   "sqlfluff.core.errors.SQLLintError.source_signature"],
        bounds={"violations": N, "line/col": "unbounded", "codes": 2, "descriptions": 2, "fix raws": 2, "source fixes": 2},
        make=make(N), replay=replay(N),
        stubs=["linted_file.set = SymSet (linear scan with symbolic equality)", "rule/segment/fix = duck-typed stubs carrying symbolic ids"],
        outside=["which violations the rules produce per variant/loop iteration"],
        witnesses_required=["deduplicated"] + (["all_kept"] if N > 1 else []),
        sharded=True, timeout_s=200 if tier == "quick" else 1500) for N in ns] + [Unit(
        name=f"c33.lint_parsed_call_site[N={N}]",
        functions=["sqlfluff.core.linter.linter.Linter.lint_parsed (assembly of templating / per-variant parse / root and alternate "
                   "variant lint results)", "LintedFile.deduplicate_in_source_space", "ParsedString.root_variant"],
        bounds={"violations": N, "origin of each": SOURCES, "root variant": "present / absent (no parse tree)", "line/col": "unbounded",
                "rendering variants": 2},
        make=make_call_site(N), replay=replay_call_site(N),
        stubs=["Linter.lint_fix_parsed -> returns the violations assigned to that variant", "trees = opaque objects",
               "linted_file.set = SymSet"],
        assumptions=["with a root variant, parse errors of alternate variants may be dropped (documented in lint_parsed); they are "
                     "exempt from the 'kept' clause, not from order/uniqueness"],
        outside=["more than two variants", "fix mode"],
        witnesses_required=["no_root_variant", "root_and_alternate_variant", "deduplicated"],
        sharded=True, timeout_s=300 if tier == "quick" else 1500) for N in ([2] if tier == "quick" else [2, 3])]


# ---------------------------------------------------------------- what the user is shown: CLI listing and API list
def _listing_sql(noqa_first, in_loop, extra_unused):
    noqa_line = "SELECT 1 AS a -- noqa: AM04"          # unused: nothing on this line violates AM04
    if in_loop:
        noqa_line = "{% for i in [1, 2] %}\nSELECT {{ i }} AS a -- noqa: AM04\n{% endfor %}"
    viol_line = "select 2 AS b"                         # CP01 (inconsistent with SELECT / AS)
    lines = [noqa_line, ";", viol_line] if noqa_first else [viol_line, ";", noqa_line]
    if extra_unused:
        lines.append("-- noqa: LT01")
    return "\n".join(lines) + "\n"


def listing_case(noqa_first, in_loop, extra_unused, route):
    import os
    import re
    import shutil
    import tempfile
    sql = _listing_sql(noqa_first, in_loop, extra_unused)
    d = tempfile.mkdtemp(prefix="c33l_")
    try:
        p = os.path.join(d, "q.sql")
        open(p, "w").write(sql)
        if route == "cli_human":
            from click.testing import CliRunner
            from sqlfluff.cli import commands as cmds
            out = CliRunner().invoke(cmds.cli, ["lint", p, "--dialect", "ansi", "--rules", "CP01,AM04,LT01", "--warn-unused-ignores"]).output
            rows = [(int(m.group(1)), int(m.group(2)), m.group(3), m.group(4).strip())
                    for m in re.finditer(r"^L:\s*(\d+) \| P:\s*(\d+) \|\s*(\w+) \| (.*)$", out, re.M)]
        else:
            from sqlfluff.core import FluffConfig, Linter
            lf = Linter(config=FluffConfig(overrides={"dialect": "ansi", "rules": "CP01,AM04,LT01"})).lint_string(sql, fname=p)
            rows = [(v.line_no, v.line_pos, v.rule_code(), v.desc()) for v in lf.get_violations(filter_warning=False, warn_unused_ignores=True)]
        problems = []
        keys = [(r[0], r[1]) for r in rows]
        if keys != sorted(keys):
            problems.append(f"not in source order: {[(r[2], r[0], r[1]) for r in rows]}")
        if len(set(rows)) != len(rows):
            problems.append(f"listed more than once: {sorted({r for r in rows if rows.count(r) > 1})}")
        return ("; ".join(problems) or None), rows, sql
    finally:
        shutil.rmtree(d, ignore_errors=True)


def make_listing():
    def factory(excluded=frozenset()):
        def harness(c):
            from symlite.values import choose
            nf, lp, ex = bool(fresh_bool(c, "unused_noqa_before_the_violation")), bool(fresh_bool(c, "noqa_inside_a_loop")), bool(fresh_bool(c, "second_unused_noqa"))
            route = choose(c, "route", ["cli_human", "api_get_violations"])
            problem, rows, _ = listing_case(nf, lp, ex, route)
            if any(r[2] == "NOQA" for r in rows):
                c.witness("unused_noqa_warning_listed")
            if any(r[2] == "CP01" for r in rows):
                c.witness("rule_violation_listed")
            return problem is None
        return harness
    return factory


def replay_listing(cex):
    route = ["cli_human", "api_get_violations"][int(cex.get("route", 0))]
    problem, rows, sql = listing_case(bool(cex.get("unused_noqa_before_the_violation")), bool(cex.get("noqa_inside_a_loop")),
                                      bool(cex.get("second_unused_noqa")), route)
    return f"{route} with --warn-unused-ignores on {sql!r}: {problem}" if problem else None


_units_dedupe_site = units


def units(tier, seed):  # noqa: F811
    return _units_dedupe_site(tier, seed) + [Unit(
        name="c33.reported_listing", functions=["sqlfluff.cli.formatters.OutputStreamFormatter._format_file_violations", "LintedFile.get_violations "
                                                "(warn_unused_ignores)", "IgnoreMask.generate_warnings_for_unused"],
        bounds={"unused noqa": "before / after the rule violation", "inside a jinja loop": "yes / no", "second unused noqa": "yes / no",
                "route": "CLI human output / API list"},
        make=make_listing(), replay=replay_listing, stubs=["none: real CLI (click CliRunner) / real Linter on a real file"],
        outside=["json / yaml formats (unused-noqa warnings are not part of them)"],
        witnesses_required=["unused_noqa_warning_listed", "rule_violation_listed"], sharded=True, timeout_s=600)]
