"""C34 Oversized files are skipped, never parsed or modified."""
from __future__ import annotations

import io

import z3

from lib.runner import Unit
from symlite.values import AbsStr, NullLogger, choose, fresh_bool, fresh_int, lift, sym_int, sym_len

import sqlfluff.core.linter.linter as lmod
import sqlfluff.core.linter.runner as rmod
import sqlfluff.core.templaters.base as tbase
from sqlfluff.core import FluffConfig, Linter
from sqlfluff.core.errors import SQLFluffSkipFile

from harness import outcome as oc

KNOWN = {}


def make_byte_limit():
    def factory(excluded=frozenset()):
        def harness(c):
            size = fresh_int(c, "file_size", 0)
            limit = fresh_int(c, "byte_limit", 0)          # the limit in force for THIS file (nested config / inline)
            root_limit = fresh_int(c, "root_byte_limit", 0)  # the limit of the root config (may differ)
            opened = []

            other = {}

            class ChildCfg:
                def get(self, key, section="core", default=None):
                    base = {"encoding": "utf-8", "large_file_skip_byte_limit": limit}
                    if key in base:
                        return base[key]
                    # any OTHER setting the code consults is an independent symbolic integer: the decision must not depend on it
                    if key not in other:
                        other[key] = fresh_int(c, f"cfg_{key}", 0)
                        c.witness("other_setting_consulted") if False else None
                    return other[key]

                def process_raw_file_for_config(self, raw, fname):
                    pass

            class RootCfg:
                def make_child_from_path(self, fname):
                    return ChildCfg()

                def get(self, key, section="core", default=None):
                    return {"encoding": "utf-8", "large_file_skip_byte_limit": root_limit}.get(key, default)

            class OsProxy:
                class path:
                    @staticmethod
                    def getsize(fname):
                        return size
            real_os, real_enc = lmod.os, lmod.get_encoding
            lmod.os, lmod.int, lmod.get_encoding = OsProxy, sym_int, (lambda fname, config_encoding: "utf-8")
            lmod.open = lambda *a, **k: (opened.append(1), io.StringIO("select 1\n"))[1]
            try:
                try:
                    lmod.Linter.load_raw_file_and_config("f.sql", RootCfg())  # REAL
                    skipped = False
                except SQLFluffSkipFile:
                    skipped = True
            finally:
                lmod.os, lmod.get_encoding = real_os, real_enc
                del lmod.int, lmod.open
            c.witness("skipped" if skipped else "loaded")
            exp = z3.And(limit.e != 0, size.e > limit.e)
            # skipped iff over the limit; a skipped file is never opened
            return z3.And(exp == z3.BoolVal(skipped), z3.BoolVal(not (skipped and opened)))
        return harness
    return factory


def replay_byte_limit(cex):
    """Real files: the root .sqlfluff sets root_byte_limit, a nested sub/.sqlfluff sets byte_limit for sub/f.sql."""
    import os
    import tempfile
    size, limit, root_limit = int(cex.get("file_size", 0)), int(cex.get("byte_limit", 0)), int(cex.get("root_byte_limit", 0))
    size = min(size, 200000)
    extra = "".join(f"{k[4:]} = {int(v)}\n" for k, v in cex.items() if k.startswith("cfg_"))
    d = os.path.realpath(tempfile.mkdtemp(prefix="c34_"))
    cwd = os.getcwd()
    try:
        os.makedirs(os.path.join(d, "sub"))
        open(os.path.join(d, ".sqlfluff"), "w").write(f"[sqlfluff]\ndialect = ansi\nlarge_file_skip_byte_limit = {root_limit}\n")
        open(os.path.join(d, "sub", ".sqlfluff"), "w").write(f"[sqlfluff]\nlarge_file_skip_byte_limit = {limit}\n{extra}")
        p = os.path.join(d, "sub", "f.sql")
        open(p, "w").write(("select 1\n" * (size // 9 + 1))[:size])
        os.chdir(d)
        cfg = FluffConfig.from_root()
        try:
            Linter.load_raw_file_and_config(os.path.join("sub", "f.sql"), cfg)
            skipped = False
        except SQLFluffSkipFile:
            skipped = True
        exp = limit != 0 and size > limit
        return None if skipped == exp else (f"sub/f.sql of {size} bytes; root .sqlfluff limit {root_limit}, sub/.sqlfluff limit {limit} {extra.split()}: "
                                            f"skipped={skipped}, expected {exp} (the nearer config file governs)")
    finally:
        os.chdir(cwd)
        import shutil
        shutil.rmtree(d, ignore_errors=True)


def make_char_limit():
    def factory(excluded=frozenset()):
        def harness(c):
            n = fresh_int(c, "n_chars", 0)
            limit = fresh_int(c, "char_limit", 0)
            called = []

            class Cfg:
                def get(self, key, section="core", default=None):
                    return limit if key == "large_file_skip_char_limit" else default

                def __bool__(self):
                    return True

            class T:
                @tbase.large_file_check
                def process(self, *, in_str, fname, config=None, formatter=None):
                    called.append(1)
                    return "rendered"
            tbase.len = sym_len
            tbase.templater_logger = NullLogger()
            try:
                T().process(in_str=AbsStr(n), fname="f.sql", config=Cfg())  # REAL wrapper
                skipped = False
            except SQLFluffSkipFile:
                skipped = True
            c.witness("skipped" if skipped else "processed")
            exp = z3.And(limit.e != 0, n.e > limit.e)
            return z3.And(exp == z3.BoolVal(skipped), z3.BoolVal(bool(called) != skipped))
        return harness
    return factory


def replay_char_limit(cex):
    if "len" in vars(tbase):
        del tbase.len
    n, limit = min(int(cex.get("n_chars", 0)), 100000), int(cex.get("char_limit", 0))
    from sqlfluff.core.templaters import RawTemplater
    cfg = FluffConfig(overrides={"dialect": "ansi", "large_file_skip_char_limit": limit})
    try:
        RawTemplater().process(in_str="x" * n, fname="f.sql", config=cfg)
        skipped = False
    except SQLFluffSkipFile:
        skipped = True
    exp = limit != 0 and n > limit
    return None if skipped == exp else f"{n} characters with large_file_skip_char_limit={limit}: skipped={skipped}, expected {exp}"


def make_runner(n_files, parallel):
    """Skip counting in the real runners: a skipped file is counted once and never reaches lint/persist."""
    def factory(excluded=frozenset()):
        rmod.linter_logger = NullLogger()

        def harness(c):
            big = [bool(fresh_bool(c, f"oversized{i}")) for i in range(n_files)]
            fnames = [f"f{i}.sql" for i in range(n_files)]
            linted = []

            class Templater:
                templates_in_worker = False

                def sequence_files(self, fnames, config=None, formatter=None):
                    return list(fnames)

            class Lin:
                templater = Templater()
                formatter = None
                config = FluffConfig(overrides={"dialect": "ansi"})

                def render_file(self, fname, config):
                    if big[fnames.index(fname)]:
                        raise SQLFluffSkipFile(f"{fname} too large")
                    return type("R", (), {"config": config, "fname": fname})()

                def get_rulepack(self, config=None):
                    return None

                def lint_rendered(self, rendered, rule_pack, fix, formatter=None):
                    linted.append(rendered.fname)
                    return oc.RecFile(rendered.fname, [], None, None, None, None, "utf8")
            if parallel:
                Templater.templates_in_worker = True  # worker-side rendering: the skip is raised inside _apply

                class WorkerLinter:
                    def __init__(self, config=None):
                        self.templater = None

                    render_file = Lin.render_file
                    get_rulepack = Lin.get_rulepack

                    @staticmethod
                    def lint_rendered(rendered, rule_pack, fix, formatter=None):
                        return Lin.lint_rendered(None, rendered, rule_pack, fix, formatter)
                Lin.config.get_templater = lambda: None
                real_linter = rmod.Linter
                rmod.Linter = WorkerLinter

                class R(rmod.ParallelRunner):
                    @classmethod
                    def _create_pool(cls, processes, initializer):
                        return type("P", (), {"terminate": lambda s: None, "join": lambda s: None})()

                    @classmethod
                    def _map(cls, pool, func, iterable):
                        return [func(x) for x in iterable]
                r = R(Lin(), Lin.config, 2)
            else:
                r = rmod.SequentialRunner(Lin(), Lin.config)
            try:
                out = list(r.run(fnames, fix=True))  # REAL
            finally:
                if parallel:
                    rmod.Linter = real_linter
            exp_skipped = sum(big)
            ok = r.skipped_file_count == exp_skipped and sorted(f.path for f in out) == sorted(f for f, b in zip(fnames, big) if not b) \
                and not any(big[fnames.index(f)] for f in linted)
            if exp_skipped:
                c.witness("skipped")
            if len(out):
                c.witness("linted")
            return ok
        return harness
    return factory


def make_exit():
    def factory(excluded=frozenset()):
        def harness(c):
            skipped = int(fresh_int(c, "files_skipped", 0, 2))
            flag = bool(fresh_bool(c, "large_file_skip_fail"))
            f, d = oc.sym_file(c, "f0", "d/f0.sql", ["LINT_FIX"])
            code_fix, persisted = oc.run_paths_fix([f], False, skipped=skipped, large_file_skip_fail=flag)  # REAL
            base = 0
            exp_fix = 1 if (skipped and flag) else base
            if skipped and flag:
                c.witness("fail_on_skip")
            if skipped and not flag:
                c.witness("skip_tolerated")
            return code_fix == exp_fix
        return harness
    return factory


def units(tier, seed):
    return [
        Unit(name="c34.byte_limit", functions=["sqlfluff.core.linter.linter.Linter.load_raw_file_and_config"],
             bounds={"file size": "unbounded", "limit": "unbounded (0 = disabled)"}, make=make_byte_limit(), replay=replay_byte_limit,
             stubs=["os.path.getsize -> symbolic size", "config -> symbolic limit", "open/get_encoding -> stubs"],
             witnesses_required=["skipped", "loaded"], sharded=False, timeout_s=120),
        Unit(name="c34.char_limit", functions=["sqlfluff.core.templaters.base.large_file_check"],
             bounds={"characters": "unbounded", "limit": "unbounded (0 = disabled)"}, make=make_char_limit(), replay=replay_char_limit,
             stubs=["in_str -> opaque text of symbolic length"], witnesses_required=["skipped", "processed"], sharded=False, timeout_s=120),
        Unit(name="c34.runner_skip[sequential,3 files]", functions=["sqlfluff.core.linter.runner.BaseRunner.iter_rendered/iter_partials", "SequentialRunner.run"],
             bounds={"files": 3, "oversized subset": "all 8"}, make=make_runner(3, False), replay="concrete",
             stubs=["linter.render_file raises SQLFluffSkipFile for oversized files", "lint_rendered records"],
             witnesses_required=["skipped", "linted"], sharded=False, timeout_s=120),
        Unit(name="c34.runner_skip[parallel,3 files]", functions=["ParallelRunner.run/_apply", "BaseRunner.iter_partials"],
             bounds={"files": 3, "oversized subset": "all 8"}, make=make_runner(3, True), replay="concrete",
             stubs=["pool/_map -> in-process map"], witnesses_required=["skipped", "linted"], sharded=False, timeout_s=120),
        Unit(name="c34.exit_on_skip", functions=["sqlfluff.cli.commands._paths_fix (large_file_skip_fail tail)", "Linter.lint_paths (files_skipped transfer)"],
             bounds={"files skipped": "0..2", "large_file_skip_fail": "both"}, make=make_exit(), replay="concrete",
             witnesses_required=["fail_on_skip", "skip_tolerated"], sharded=False, timeout_s=120),
    ]


# ---------------------------------------------------------------- the two limits through the real lint_paths (real files)
def limit_route(kind, over, fix, processes):
    """Returns (problems, counted_as_skipped). kind = 'byte' | 'char'."""
    import logging
    import os
    import shutil
    import tempfile
    from sqlfluff.core import FluffConfig, Linter
    d = tempfile.mkdtemp(prefix="c34r_")
    try:
        body = "SELECT  a,b FROM t\n" * (20 if over else 1)      # 380 / 19 bytes; LT01 violations either way
        paths = []
        for n in ("f.sql", "g.sql"):
            p = os.path.join(d, n)
            open(p, "w").write(body if n == "f.sql" else "SELECT 1\n")
            paths.append(p)
        ov = {"dialect": "ansi", "rules": "LT01", "large_file_skip_byte_limit": 100 if kind == "byte" else 0}
        if kind == "char":
            ov["large_file_skip_char_limit"] = 100
        logging.disable(logging.CRITICAL)
        try:
            lin = Linter(config=FluffConfig(overrides=ov))
            lin.allow_process_parallelism = False   # threads: the harness itself runs inside pool workers
            res = lin.lint_paths(tuple(paths), fix=fix, apply_fixes=fix, processes=processes)
        finally:
            logging.disable(logging.NOTSET)
        problems = []
        vs = [v for ld in res.paths for f in ld.files if f.path.endswith("f.sql") for v in f.get_violations()]
        now = open(paths[0]).read()
        if over:
            if vs:
                problems.append(f"oversized file was linted: {sorted({v.rule_code() for v in vs})}")
            if now != body:
                problems.append("oversized file was rewritten")
        else:
            if not vs and not fix:
                problems.append("file under the limit reports nothing")
            if fix and now == body:
                problems.append("file under the limit was not fixed")
        return problems, res.files_skipped
    finally:
        shutil.rmtree(d, ignore_errors=True)


def make_limit_routes():
    def factory(excluded=frozenset()):
        def harness(c):
            kind = choose(c, "limit_kind", ["byte", "char"])
            over = bool(fresh_bool(c, "file_over_the_limit"))
            fix = bool(fresh_bool(c, "fix_mode"))
            procs = int(fresh_int(c, "processes", 1, 2))
            problems, skipped = limit_route(kind, over, fix, procs)
            if over and skipped != 1 and not (kind == "char" and "F34" in excluded):
                problems.append(f"files_skipped = {skipped}, expected 1")
            if not over and skipped != 0:
                problems.append(f"files_skipped = {skipped}, expected 0")
            if over:
                c.witness("oversized")
            if kind == "char":
                c.witness("char_limit")
            return not problems
        return harness
    return factory


def replay_limit_routes(cex, strict=True):
    kind = ["byte", "char"][int(cex.get("limit_kind", 0))]
    over, fix, procs = bool(cex.get("file_over_the_limit")), bool(cex.get("fix_mode")), int(cex.get("processes", 1))
    problems, skipped = limit_route(kind, over, fix, procs)
    if over and skipped != 1:
        problems.append(f"files_skipped = {skipped}, expected 1")
    return (f"{kind} limit 100, file {'over' if over else 'under'} it, {'fix' if fix else 'lint'}, processes={procs}: " + "; ".join(problems)) if problems else None


def known_f34(entry):
    return replay_limit_routes(entry["replay"])


KNOWN["F34"] = known_f34
_units_kernels_c34 = units


def units(tier, seed):  # noqa: F811
    return _units_kernels_c34(tier, seed) + [Unit(
        name="c34.limit_routes", functions=["sqlfluff.core.linter.linter.Linter.lint_paths / render_string (SQLFluffSkipFile from the templater)",
                                            "sqlfluff.core.templaters.base.large_file_check", "BaseRunner.iter_rendered"],
        bounds={"limit": "byte / char (100)", "file": "over / under", "mode": "lint / fix", "processes": "1..2", "files in the run": 2},
        make=make_limit_routes(), replay=replay_limit_routes, stubs=["none: real files, real lint_paths"],
        outside=["stdin / API string routes"], witnesses_required=["oversized", "char_limit"], sharded=True, timeout_s=600)]
