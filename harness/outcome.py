"""Shared fixture for C18 / C19 / C22 / C34: real LintedFile objects with solver-forked violation kinds and flags,
pushed through the real CLI fix/lint tails, Linter.lint_paths apply gate, LintedDir/LintingResult and api.simple.fix."""
from __future__ import annotations

import io
import os
import sys

from symlite.values import NullLogger, fresh_bool, fresh_int

import sqlfluff.api.simple as simple
import sqlfluff.cli.commands as cmds
import sqlfluff.core.linter.linter as lmod
import sqlfluff.core.linter.runner as rmod
from sqlfluff.core import FluffConfig, Linter
from sqlfluff.core.errors import SQLLintError, SQLParseError, SQLTemplaterError
from sqlfluff.core.linter.linted_dir import LintedDir
from sqlfluff.core.linter.linted_file import LintedFile
from sqlfluff.core.linter.linting_result import LintingResult

KINDS = ["TMP", "PRS", "LINT_FIX", "LINT_NOFIX"]
FIXED_TEXT = "<<fixed text>>"


class _Rule:
    def __init__(self, code):
        self.code, self.name = code, code.lower()


class _Seg:
    pos_marker = None
    raw = "x"

    def __bool__(self):
        return False


class _Fix:
    edit = None

    def to_dict(self):
        return {"type": "replace", "edit": "y", "start_line_no": 1, "start_line_pos": 1, "start_file_pos": 0,
                "end_line_no": 1, "end_line_pos": 2, "end_file_pos": 1}


def make_violation(kind, ignore, warning, line):
    if kind == "TMP":
        v = SQLTemplaterError("tmp", line_no=line, line_pos=1)
    elif kind == "PRS":
        v = SQLParseError("prs", line_no=line, line_pos=1)
    else:
        v = SQLLintError("lint", _Seg(), _Rule("LT01" if kind == "LINT_FIX" else "AM04"),
                         fixes=[_Fix()] if kind == "LINT_FIX" else [])
        v.line_no, v.line_pos = line, 1
    v.ignore, v.warning = ignore, warning
    return v


class RecFile(LintedFile):
    """A real LintedFile whose write path only records that it was asked to write."""
    log: list = []

    def persist_tree(self, suffix="", formatter=None):
        if self.num_violations(fixable=True, filter_warning=False) > 0:
            RecFile.log.append(("persist", self.path))
        return True

    def fix_string(self):
        RecFile.log.append(("fix_string", self.path))
        # the fixed tree differs from the source iff some unsuppressed violation still carries a fix
        if self.num_violations(fixable=True, filter_warning=False) > 0:
            return FIXED_TEXT, True
        return "<<stdin text>>", False


def sym_file(c, tag, path, max_v):
    """One file: each of the 4 violation kinds present or not (forked), each with forked ignore / warning flags."""
    vs, desc = [], []
    for k in KINDS[:max_v] if isinstance(max_v, int) else max_v:
        if bool(fresh_bool(c, f"{tag}_{k}")):
            ig = bool(fresh_bool(c, f"{tag}_{k}_ignored"))
            wa = bool(fresh_bool(c, f"{tag}_{k}_warning"))
            vs.append(make_violation(k, ig, wa, len(vs) + 1))
            desc.append((k, ig, wa))
    return RecFile(path, vs, None, None, None, None, "utf8"), desc


class StubRunner:
    def __init__(self, files, skipped=0):
        self.files, self.skipped_file_count = files, skipped

    def run(self, fnames, fix):
        return iter(self.files)


class Fmt:
    """Formatter stub: swallows output."""

    def __getattr__(self, n):
        return lambda *a, **k: ""


def linter_for(files, skipped=0, large_file_skip_fail=False):
    """A real Linter whose file discovery and runner are replaced; everything downstream is real."""
    lin = Linter(config=FluffConfig(overrides={"dialect": "ansi", "large_file_skip_fail": large_file_skip_fail}))
    lmod.paths_from_path = lambda path, **kw: [f.path for f in files if f.path.startswith(path)]
    rmod.get_runner = lambda *a, **k: (StubRunner(files, skipped), 1)
    return lin


def restore():
    import importlib
    from sqlfluff.core.linter.discovery import paths_from_path
    lmod.paths_from_path = paths_from_path
    rmod.get_runner = _REAL_GET_RUNNER


_REAL_GET_RUNNER = rmod.get_runner


def run_paths_fix(files, fix_even_unparsable, skipped=0, large_file_skip_fail=False):
    """REAL cli._paths_fix -> real Linter.lint_paths (apply gate) -> LintedDir/LintingResult. Returns (exit, persisted)."""
    RecFile.log = []
    lin = linter_for(files, skipped, large_file_skip_fail)
    cmds.click.echo, real_echo = (lambda *a, **k: None), cmds.click.echo
    try:
        try:
            cmds._paths_fix(lin, Fmt(), ("d",), 1, fix_even_unparsable, "", False, False, check=False)
            code = None
        except SystemExit as e:
            code = e.code
    finally:
        cmds.click.echo = real_echo
        restore()
    return code, [p for op, p in RecFile.log if op == "persist"]


def run_stdin_fix(f, fix_even_unparsable, stdin_text="<<stdin text>>"):
    """REAL cli._stdin_fix. Returns (exit, stdout)."""
    RecFile.log = []
    lin = Linter(config=FluffConfig(overrides={"dialect": "ansi"}))

    def wrapped(string, fname="<string input>", fix=False, stdin_filename=None):
        res = LintingResult()
        d = LintedDir(fname)
        d.add(f)
        res.add(d)
        res.stop_timer()
        return res
    lin.lint_string_wrapped = wrapped
    out = []
    real_echo, real_stdin = cmds.click.echo, sys.stdin
    cmds.click.echo = lambda msg=None, nl=True, err=False, **k: (out.append(str(msg)) if not err else None)
    sys.stdin = io.StringIO(stdin_text)
    try:
        try:
            cmds._stdin_fix(lin, Fmt(), fix_even_unparsable)
            code = None
        except SystemExit as e:
            code = e.code
    finally:
        cmds.click.echo, sys.stdin = real_echo, real_stdin
    return code, "".join(out)


def run_api_fix(f, fix_even_unparsable, text="<<stdin text>>"):
    """REAL api.simple.fix. Returns the returned string."""
    RecFile.log = []

    def wrapped(self, string, fname="<string input>", fix=False, stdin_filename=None):
        res = LintingResult()
        d = LintedDir(fname)
        d.add(f)
        res.add(d)
        res.stop_timer()
        return res
    real = Linter.lint_string_wrapped
    Linter.lint_string_wrapped = wrapped
    try:
        return simple.fix(text, dialect="ansi", fix_even_unparsable=fix_even_unparsable)
    finally:
        Linter.lint_string_wrapped = real


def run_lint(files, nofail=False, skipped=0, large_file_skip_fail=False):
    """The tail of the real `lint` command is inline in a click command; we run its real exit computation:
    LintingResult.stats on the real LintedDir aggregation."""
    res = LintingResult()
    d = LintedDir("d")
    for f in files:
        d.add(f)
    res.add(d)
    res.files_skipped = skipped
    code = res.stats(cmds.EXIT_FAIL, cmds.EXIT_SUCCESS)["exit code"]
    if skipped and large_file_skip_fail:
        code = max(code, cmds.EXIT_FAIL)
    return code if not nofail else cmds.EXIT_SUCCESS


# ---------------------------------------------------------------- reference semantics (the properties' statements)

def has_tmp_prs(desc):
    return any(k in ("TMP", "PRS") for k, _, _ in desc)


def blocking_unsuppressed(desc):
    return any(k in ("TMP", "PRS") and not ig for k, ig, wa in desc)


def live(desc):
    """violations that are neither suppressed nor warnings"""
    return [(k, ig, wa) for k, ig, wa in desc if not ig and not wa]


# ---------------------------------------------------------------- concrete end-to-end replay through the real CLI

SNIPPET = {
    "LINT_FIX": ("SELECT  1 AS a", "LT01"),     # double space: fixable
    "LINT_NOFIX": ("SELECT * FROM t", "AM04"),  # unknown number of columns: not fixable
    "PRS": ("SELECT 1 +", "PRS"),
    "TMP": ("SELECT {{ undefined_var }}", "TMP"),
}


STYLE = ["noqa"]   # how a suppressed templating/parsing error is realised: inline noqa, or `ignore = parsing,templating`
STYLES = ("noqa", "config")


def build_real_file(desc):
    """SQL + config realising a kind/flag vector with the real rules (one statement per kind, one per line)."""
    lines, warn, ignore = [], [], []
    order = sorted(desc, key=lambda d: d[0] in ("PRS",))  # the unparsable statement goes last
    for k, ig, wa in order:
        sql, code = SNIPPET[k]
        by_config = ig and k in ("PRS", "TMP") and STYLE[0] == "config"
        if by_config:
            ignore.append("parsing" if k == "PRS" else "templating")
        lines.append(sql + (f"  -- noqa: {code}" if ig and not by_config else "") + ("" if k == "PRS" else ";"))
        if wa:
            warn.append(code)
    if ignore:
        warn = list(warn) + ["\nignore = " + ",".join(ignore)]   # smuggled into the config text below
    return "\n".join(lines) + "\n", warn


def _cfg_text(warn):
    extra = [w for w in warn if w.startswith("\nignore")]
    codes = [w for w in warn if not w.startswith("\nignore")]
    return "[sqlfluff]\ndialect = ansi\nrules = LT01,AM04\n" + (f"warnings = {','.join(codes)}\n" if codes else "") + "".join(e.strip("\n") + "\n" for e in extra)


def each_style(fn):
    """Run a replay under every realisation style; the first description wins."""
    for st in STYLES:
        STYLE[0] = st
        try:
            d = fn()
        finally:
            STYLE[0] = "noqa"
        if d:
            return d + f" [suppression realised via {st}]"
    return None


def cli_fix_on_disk(desc, fix_even_unparsable=False):
    """Runs the real `sqlfluff fix` on a temp file. Returns (exit_code, changed?)."""
    import tempfile
    from click.testing import CliRunner
    sql, warn = build_real_file(desc)
    with tempfile.TemporaryDirectory() as d:
        p = os.path.join(d, "t.sql")
        open(p, "w").write(sql)
        cfg = os.path.join(d, ".sqlfluff")
        open(cfg, "w").write(_cfg_text(warn))
        args = ["fix", p, "--config", cfg] + (["--FIX-EVEN-UNPARSABLE"] if fix_even_unparsable else [])
        r = CliRunner().invoke(cmds.cli, args)
        return r.exit_code, open(p).read() != sql, sql, r.output[-400:]


def cli_lint_on_disk(desc):
    import tempfile
    from click.testing import CliRunner
    sql, warn = build_real_file(desc)
    with tempfile.TemporaryDirectory() as d:
        p = os.path.join(d, "t.sql")
        open(p, "w").write(sql)
        cfg = os.path.join(d, ".sqlfluff")
        open(cfg, "w").write(_cfg_text(warn))
        r = CliRunner().invoke(cmds.cli, ["lint", p, "--config", cfg])
        return r.exit_code, sql, r.output[-400:]


def cli_fix_stdin(desc, fix_even_unparsable=False):
    """Runs the real `sqlfluff fix -` with the file on stdin. Returns (exit_code, stdout_changed?, sql)."""
    import tempfile
    from click.testing import CliRunner
    sql, warn = build_real_file(desc)
    with tempfile.TemporaryDirectory() as d:
        cfg = os.path.join(d, ".sqlfluff")
        open(cfg, "w").write(_cfg_text(warn))
        args = ["fix", "-", "--config", cfg] + (["--FIX-EVEN-UNPARSABLE"] if fix_even_unparsable else [])
        try:
            r = CliRunner(mix_stderr=False).invoke(cmds.cli, args, input=sql)
        except TypeError:
            r = CliRunner().invoke(cmds.cli, args, input=sql)
        return r.exit_code, r.stdout != sql, sql
