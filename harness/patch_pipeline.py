"""Patch pipeline (C10 / C11 / C30): real generate_source_patches filter -> merge_source_patches ->
_slice_source_file_using_patches -> _build_up_fixed_source_string over a symbolic TemplatedFile and patch streams."""
from __future__ import annotations

import itertools

import z3

from lib.runner import Unit
from symlite.values import (AbsStr, NullLogger, RopeStr, SymInt, SymSet, choose, fresh_int, lift, sym_int, sym_len)

import sqlfluff.core.linter.patch as patchmod
import sqlfluff.core.linter.linted_file as lfmod
import sqlfluff.core.templaters.base as tbase
from sqlfluff.core.linter.linted_file import LintedFile
from sqlfluff.core.linter.patch import FixPatch, generate_source_patches, merge_source_patches
from sqlfluff.core.templaters.base import RawFileSlice, TemplatedFile

SOURCE_ONLY = ("comment", "block_end", "block_start", "block_mid")
CATS = ["literal", "source"]  # other categories are processed exactly like "literal" (the field is only compared to "source")
TYPE_OF = {"L": "literal", "T": "templated", "S": "block_start", "E": "block_end", "C": "comment", "M": "block_mid"}

FUNCTIONS = [
    "sqlfluff.core.linter.patch.generate_source_patches",
    "sqlfluff.core.linter.patch.FixPatch.dedupe_tuple",
    "sqlfluff.core.linter.patch.merge_source_patches",
    "sqlfluff.core.linter.patch._patches_conflict",
    "sqlfluff.core.templaters.base.TemplatedFile.raw_slices_spanning_source_slice",
    "sqlfluff.core.templaters.base.TemplatedFile.source_only_slices",
    "sqlfluff.core.templaters.base.RawFileSlice.source_slice",
    "sqlfluff.core.linter.linted_file.LintedFile._slice_source_file_using_patches",
    "sqlfluff.core.linter.linted_file.LintedFile._build_up_fixed_source_string",
]
STUBS = [
    "patch._iter_templated_patches -> arbitrary symbolic patch stream (start<=stop<=len, any replacement text, "
    "category in literal/mid_point/source; a 'source' patch names exactly one non-literal raw slice = contract of "
    "the SourceFix creators)",
    "loggers/_log_hints -> empty bodies",
    "module-namespace rebinding: patch.int=sym_int, patch.set=SymSet, linted_file.len=sym_len, base.len=sym_len",
]
ASSUME = [
    "source text is opaque (RopeStr base 'src' of symbolic length); replacement texts are opaque bases",
    "raw slices tile the source (established by C07)",
]


def _bind():
    patchmod.int = sym_int
    patchmod.set = SymSet
    patchmod.linter_logger = NullLogger()
    patchmod._log_hints = lambda *a, **k: None
    lfmod.len = sym_len
    lfmod.linter_logger = NullLogger()
    tbase.len = sym_len


def _unbind():
    for mod, names in ((patchmod, ("int", "set")), (lfmod, ("len",)), (tbase, ("len",))):
        for nm in names:
            if nm in vars(mod):
                delattr(mod, nm)


def _pipeline(tf, streams, src):
    """Run the REAL functions. streams: per variant list of FixPatch."""
    variants = []
    orig = patchmod._iter_templated_patches
    try:
        for stream in streams:
            patchmod._iter_templated_patches = lambda tree, templated_file, _s=stream: iter(_s)
            variants.append(generate_source_patches(None, tf))
    finally:
        patchmod._iter_templated_patches = orig
    merged = merge_source_patches(variants)
    so = tf.source_only_slices()
    slices = LintedFile._slice_source_file_using_patches(list(merged), list(so), src)
    out = LintedFile._build_up_fixed_source_string(slices, list(merged), src)
    return variants, merged, slices, out


def make(shape: str, n_patches: int, n_variants: int, prop: str):
    """shape: string over L/T/S/E/C/M (raw slice types, in source order); everything else symbolic."""
    types = [TYPE_OF[k] for k in shape]

    def factory(excluded=frozenset()):
        _bind()

        def harness(c):
            lens = [fresh_int(c, f"len{i}", 1) for i in range(len(types))]
            bounds = [SymInt(z3.IntVal(0))]
            for ln in lens:
                bounds.append(bounds[-1] + ln)
            n = bounds[-1]
            src = RopeStr.base(c, "src")
            c.assume(src.symlen().e == n.e)
            raw = [RawFileSlice(AbsStr(lens[i]), t, bounds[i]) for i, t in enumerate(types)]
            tf = TemplatedFile.__new__(TemplatedFile)
            tf.source_str = src
            tf.templated_str = src
            tf.fname = "f"
            tf.raw_sliced = raw
            tf.sliced_file = []
            streams, allp = [], []
            for v in range(n_variants):
                stream = []
                for i in range(n_patches):
                    s = fresh_int(c, f"v{v}s{i}", 0)
                    e = fresh_int(c, f"v{v}e{i}")
                    c.assume(z3.And(s.e <= e.e, e.e <= n.e))
                    r = RopeStr.base(c, f"v{v}r{i}")
                    cat = choose(c, f"v{v}cat{i}", CATS)
                    if cat == "source":
                        opts = [z3.And(s.e == bounds[j].e, e.e == bounds[j + 1].e)
                                for j, t in enumerate(types) if t != "literal"]
                        c.assume(z3.Or(*opts) if opts else z3.BoolVal(False))
                    stream.append(FixPatch(slice(s, s), r, cat, slice(s, e), "", ""))
                streams.append(stream)
                allp += stream
            variants, merged, slices, out = _pipeline(tf, streams, src)
            # ---- C30 oracle: slice buffer tiles the source; every slice is raw text or exactly one distinct edit
            ok30 = z3.BoolVal(True)
            pos = z3.IntVal(0)
            used = [False] * len(merged)
            exp = RopeStr([])
            applied = []
            for sl in slices:
                ok30 = z3.And(ok30, lift(sl.start) == pos, lift(sl.stop) >= lift(sl.start))
                pos = lift(sl.stop)
                hit = None
                for k, p in enumerate(merged):
                    if not used[k] and bool((p.source_slice.start == sl.start) & (p.source_slice.stop == sl.stop)):
                        hit = k
                        break
                if hit is None:
                    exp = exp + src[sl]
                else:
                    used[hit] = True
                    exp = exp + merged[hit].fixed_raw
                    applied.append(merged[hit])
            ok30 = z3.And(ok30, pos == n.e, RopeStr.coerce(out).same_as(exp).e)
            # applied edits pairwise disjoint (strictly: no shared interior, never the same range twice)
            for a, b in itertools.combinations(applied, 2):
                a0, a1, b0, b1 = (lift(a.source_slice.start), lift(a.source_slice.stop),
                                  lift(b.source_slice.start), lift(b.source_slice.stop))
                ok30 = z3.And(ok30, z3.Or(a1 <= b0, b1 <= a0), z3.Not(z3.And(a0 == b0, a1 == b1)))
            # ---- C10 oracle: every non-literal raw slice survives verbatim unless a 'source' edit names exactly it
            ok10 = z3.BoolVal(True)
            for i, t in enumerate(types):
                if t == "literal":
                    continue
                for p in applied:
                    ps, pe = lift(p.source_slice.start), lift(p.source_slice.stop)
                    overlaps = z3.And(ps < bounds[i + 1].e, pe > bounds[i].e)
                    names_it = z3.And(z3.BoolVal(p.patch_category == "source"), ps == bounds[i].e, pe == bounds[i + 1].e)
                    ok10 = z3.And(ok10, z3.Or(z3.Not(overlaps), names_it))
            # ---- C11: nothing applied => output is the source itself, and fix_string's "changed" flag is False
            ok11 = z3.BoolVal(True)
            if not applied:
                ok11 = z3.And(RopeStr.coerce(out).same_as(src).e)
                changed = out != src
                ok11 = z3.And(ok11, z3.BoolVal(changed is False) if isinstance(changed, bool) else z3.Not(changed.e))
            if applied:
                c.witness("applied")
            if any(p.patch_category == "literal" and not bool(p.source_slice.start == p.source_slice.stop) for p in applied):
                c.witness("applied_literal_replacement")
            if len(applied) >= 2:
                c.witness("two_applied")
            if len(merged) < len(allp):
                c.witness("filtered_or_dropped")
            if not applied:
                c.witness("nothing_applied")
            return {"C30": ok30, "C10": ok10, "C11": z3.And(ok30, ok11)}[prop]

        return harness

    return factory


# ---------------------------------------------------------------- concrete replay (no proxies, independent oracle)

def _apply_subset(src, subset):
    out, pos = "", 0
    for s, e, r in sorted(subset):
        out += src[pos:s] + r
        pos = e
    return out + src[pos:]


def replay_concrete(shape: str, n_patches: int, n_variants: int, prop: str, cex: dict):
    """Rebuild the concrete input from the model, run the real pipeline natively, judge with an independent oracle:
    there must exist a set A of pairwise-disjoint input edits with out == src[A applied]; (C10) no edit of A may
    touch a non-literal raw slice unless it is a 'source' edit naming exactly that slice."""
    _bind()
    types = [TYPE_OF[k] for k in shape]
    lens = [int(cex.get(f"len{i}", 1)) for i in range(len(types))]
    alphabet = "abcdefghijklmnopqrstuvwxyz0123456789"
    n = sum(lens)
    src = "".join(alphabet[i % len(alphabet)] for i in range(n))
    bounds = [0]
    for ln in lens:
        bounds.append(bounds[-1] + ln)
    raw = [RawFileSlice(src[bounds[i]:bounds[i + 1]], t, bounds[i]) for i, t in enumerate(types)]
    tf = TemplatedFile.__new__(TemplatedFile)
    tf.source_str = src
    tf.templated_str = src
    tf.fname = "f"
    tf.raw_sliced = raw
    tf.sliced_file = []
    streams, edits = [], []
    up = "ABCDEFGHIJKLMNOPQRSTUVWXYZ"
    for v in range(n_variants):
        stream = []
        for i in range(n_patches):
            s, e = int(cex[f"v{v}s{i}"]), int(cex[f"v{v}e{i}"])
            rl = int(cex.get(f"len_v{v}r{i}", 0))
            k = v * n_patches + i
            r = (up[k % 26] * rl)
            cat = CATS[int(cex.get(f"v{v}cat{i}", 0))]
            stream.append(FixPatch(slice(s, s), r, cat, slice(s, e), "", ""))
            edits.append((s, e, r, cat))
        streams.append(stream)
    try:
        _, merged, slices, out = _pipeline(tf, streams, src)
    except Exception as ex:  # the pipeline must not raise
        return f"pipeline raised {type(ex).__name__}: {ex} on src={src!r} edits={edits}"
    uniq = sorted(set(edits))
    for k in range(len(uniq) + 1):
        for sub in itertools.combinations(uniq, k):
            ok = all(a[1] <= b[0] or b[1] <= a[0] for a, b in itertools.combinations(sub, 2)) and \
                len({(a[0], a[1]) for a in sub}) == len(sub)
            if not ok or _apply_subset(src, [(s, e, r) for s, e, r, _ in sub]) != out:
                continue
            if prop == "C10":
                bad = False
                for i, t in enumerate(types):
                    if t == "literal":
                        continue
                    for s, e, r, cat in sub:
                        if s < bounds[i + 1] and e > bounds[i] and not (cat == "source" and (s, e) == (bounds[i], bounds[i + 1])):
                            bad = True
                if bad:
                    continue
            if prop == "C11" and not sub and out != src:
                continue
            return None
    return (f"src={src!r} raw_slices={[(r.slice_type, r.source_idx) for r in raw]} edits={edits} -> out={out!r}: "
            f"no set of pairwise-disjoint input edits explains the output"
            + (" without touching template code" if prop == "C10" else ""))


def pipeline_units(prop: str, configs: list, timeout_s: float) -> list:
    units = []
    for shape, npatch, nvar in configs:
        units.append(Unit(
            name=f"{prop.lower()}.pipeline[{shape},{npatch}p,{nvar}v]",
            functions=FUNCTIONS,
            bounds={"raw_slice_types": shape, "patches_per_variant": npatch, "variants": nvar,
                    "source_length": "unbounded", "positions": "unbounded", "replacement_text": "arbitrary"},
            make=make(shape, npatch, nvar, prop),
            replay=(lambda cex, _a=(shape, npatch, nvar, prop): replay_concrete(*_a, cex)),
            stubs=STUBS, assumptions=ASSUME,
            outside=["which patches real rules generate (_iter_templated_patches over trees)",
                     "more raw slices / patches / variants than the stated bound"],
            witnesses_required=["applied", "applied_literal_replacement"] + (["nothing_applied"] if shape != "L" else []),
            sharded=True, timeout_s=timeout_s,
        ))
    return units
