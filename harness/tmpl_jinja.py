"""Jinja tracer / variant rectification with symbolic text lengths (C07-3).

The *shape* of a case (slice types, tags, next_slice_indices, ids, and the sequence of slices the rendered template
visits) is taken from the REAL JinjaAnalyzer/JinjaTracer run on a representative concrete template; every raw-slice
length, every rendered length of a templated expression and every rewrite delta of an if/elif tag is then symbolic,
and the real move_to_slice / record_trace / _rectify_templated_slices are executed on them.
"""
from __future__ import annotations

import z3

from lib.runner import Unit
from symlite.values import AbsStr, NullLogger, SymInt, fresh_int, hash_zero, lift, sym_len

import sqlfluff.core.templaters.jinja as jj
import sqlfluff.core.templaters.slicers.tracer as tr
from sqlfluff.core import FluffConfig
from sqlfluff.core.templaters.base import RawFileSlice
from sqlfluff.core.templaters.jinja import JinjaTemplater
from sqlfluff.core.templaters.slicers.tracer import JinjaTracer, RawSliceInfo

CASES = {
    "if_elif_else": "a {% if x %}b{% elif y %}cc{% else %}ddd{% endif %} e\n",
    "for_expr": "a {% for i in [1,2] %}b{{ i }}{% endfor %} c\n",
    "for_if": "{% for i in [1,2] %}{% if i %}a{% else %}bbb{% endif %}c{% endfor %}z\n",
    "two_ifs": "{% if x %}a{% endif %}b{% if y %}c{% else %}d{% endif %}e\n",
    "nested_if": "{% if x %}{% if y %}a{% else %}b{% endif %}{% endif %}c\n",
    "set_macro": "{% set v = 1 %}{{ v }} {% macro m() %}x{% endmacro %}{{ m() }} y\n",
    "if_only": "{% if x %}a{% endif %}\n",
}
_CACHE: dict = {}


def capture(case):
    """Run the real templater concretely and record every tracer's raw slices, slice info and visit sequence."""
    if case in _CACHE:
        return _CACHE[case]
    runs, rect = [], []
    orig_trace, orig_move, orig_rec = JinjaTracer.trace, JinjaTracer.move_to_slice, JinjaTracer.record_trace
    orig_rect = JinjaTemplater._rectify_templated_slices
    cur = []

    def trace(self, append_to_templated=""):
        cur.append([])
        out = orig_trace(self, append_to_templated)
        runs.append({"raw": list(self.raw_sliced), "info": dict(self.raw_slice_info), "calls": cur.pop(), "trace": out})
        return out

    def move(self, tgt, ln):
        if cur:
            cur[-1].append(("move", tgt, ln))
        return orig_move(self, tgt, ln)

    def rec(self, ln, slice_idx=None, slice_type=None):
        if cur and slice_idx is not None:
            cur[-1].append(("rec", slice_idx, ln))
        return orig_rec(self, ln, slice_idx, slice_type)

    def rectify(length_deltas, sliced_template):
        rect.append((dict(length_deltas), sliced_template))
        return orig_rect(length_deltas, sliced_template)
    JinjaTracer.trace, JinjaTracer.move_to_slice, JinjaTracer.record_trace = trace, move, rec
    JinjaTemplater._rectify_templated_slices = staticmethod(rectify)
    try:
        cfg = FluffConfig(overrides={"dialect": "ansi", "templater": "jinja"})
        variants = list(JinjaTemplater().process_with_variants(in_str=CASES[case], fname="f.sql", config=cfg))
    finally:
        JinjaTracer.trace, JinjaTracer.move_to_slice, JinjaTracer.record_trace = orig_trace, orig_move, orig_rec
        JinjaTemplater._rectify_templated_slices = staticmethod(orig_rect)
    # pair each rectify call with the tracer run whose sliced_file object it received
    pairs = []
    for deltas, sliced in rect:
        for r in runs:
            if r["trace"].sliced_file is sliced:
                pairs.append((deltas, r))
    _CACHE[case] = (runs, pairs, variants)
    return _CACHE[case]


def _bind():
    tr.len = sym_len
    jj.templater_logger = NullLogger()


def sym_tracer(c, run, lens, tag):
    """A real JinjaTracer over raw slices with the run's shape and the given symbolic lengths."""
    raw, pos = [], SymInt(z3.IntVal(0))
    for i, r in enumerate(run["raw"]):
        raw.append(RawFileSlice(AbsStr(lens[i]), r.slice_type, pos, r.block_idx, r.tag))
        pos = pos + lens[i]
    info = {}
    for new, old in zip(raw, run["raw"]):
        info[new] = run["info"][old]
    t = JinjaTracer(AbsStr(pos), raw, info, [], render_func=None)
    recorded = []
    real_rec = t.record_trace

    def rec(ln, slice_idx=None, slice_type=None):
        recorded.append(t.program_counter if slice_idx is None else slice_idx)
        return real_rec(ln, slice_idx, slice_type)
    t.record_trace = rec
    return t, raw, pos, recorded


def replay_calls(c, t, run, lens, tag):
    """Feed the recorded visit sequence to the REAL move_to_slice / record_trace with symbolic lengths."""
    for k, (kind, tgt, ln) in enumerate(run["calls"]):
        st = run["raw"][tgt].slice_type
        if ln == 0:
            sl = 0
        elif st == "literal":
            sl = lens[tgt]
        else:
            sl = fresh_int(c, f"{tag}_out{k}", 0)
        if kind == "move":
            t.move_to_slice(tgt, sl)
        else:
            t.record_trace(sl, tgt)


def oracle_trace(t, raw, n, recorded, orig_bounds=None):
    """Each recorded source slice is exactly the range of its raw slice; templated slices contiguous from 0."""
    ok = z3.BoolVal(True)
    tp = z3.IntVal(0)
    bounds = orig_bounds
    if bounds is None:
        bounds = [(lift(r.source_idx), lift(raw[i + 1].source_idx) if i + 1 < len(raw) else lift(n)) for i, r in enumerate(raw)]
    for tfs, idx in zip(t.sliced_file, recorded):
        lo, hi = bounds[idx]
        ok = z3.And(ok, lift(tfs.source_slice.start) == lo, lift(tfs.source_slice.stop) == hi,
                    lift(tfs.templated_slice.start) == tp, lift(tfs.templated_slice.stop) >= tp)
        tp = lift(tfs.templated_slice.stop)
        if tfs.slice_type == "literal":
            ok = z3.And(ok, z3.Or(lift(tfs.templated_slice.stop) == lift(tfs.templated_slice.start),
                                  lift(tfs.templated_slice.stop) - lift(tfs.templated_slice.start) == hi - lo))
    return ok


def make_primary(case):
    def factory(excluded=frozenset()):
        _bind()
        runs, pairs, _ = capture(case)
        run = runs[0]

        def harness(c):
            lens = [fresh_int(c, f"len{i}", 1) for i in range(len(run["raw"]))]
            with hash_zero():
                t, raw, n, recorded = sym_tracer(c, run, lens, "p")
                replay_calls(c, t, run, lens, "p")
            if len(set(recorded)) < len(recorded):
                c.witness("slice_visited_twice")
            return oracle_trace(t, raw, n, recorded)
        return harness
    return factory


def make_variant(case, vi):
    def factory(excluded=frozenset()):
        _bind()
        runs, pairs, _ = capture(case)
        deltas, run = pairs[vi]
        orig = runs[0]["raw"]
        rewritten = [i for i, (a, b) in enumerate(zip(orig, run["raw"])) if a.raw != b.raw]

        def harness(c):
            lens = [fresh_int(c, f"len{i}", 1) for i in range(len(orig))]
            d = {i: fresh_int(c, f"delta{i}") for i in rewritten}
            vlens = [lens[i] + d[i] if i in d else lens[i] for i in range(len(orig))]
            for i in rewritten:
                c.assume(lift(vlens[i]) >= 1)
            # original layout
            ob, pos = [], z3.IntVal(0)
            for ln in lens:
                ob.append((pos, pos + lift(ln)))
                pos = pos + lift(ln)
            with hash_zero():
                t, raw, n, recorded = sym_tracer(c, run, vlens, "v")
                replay_calls(c, t, run, vlens, "v")
                if "F5" in excluded:
                    # known finding F5 = (a rewritten tag is revisited by a loop AND its rewrite changed its length);
                    # assume the negation so that everything else about the path is still checked
                    for i in rewritten:
                        if recorded.count(i) > 1:
                            c.assume(lift(d[i]) == 0)
                length_deltas = {SymInt(ob[i][0]): d[i] for i in rewritten}
                adjusted = JinjaTemplater._rectify_templated_slices(length_deltas, t.sliced_file)  # REAL
            t.sliced_file = adjusted
            if any(recorded.count(i) > 1 for i in rewritten):
                c.witness("rewritten_tag_revisited")
            c.witness("rectified")
            return oracle_trace(t, raw, n, recorded, orig_bounds=ob)
        return harness
    return factory


def known_f5(entry):
    cfg = FluffConfig(overrides={"dialect": "ansi", "templater": "jinja"})
    src = entry["replay"]["source"]
    vs = list(JinjaTemplater().process_with_variants(in_str=src, fname="f.sql", config=cfg))
    for v, _ in vs[1:]:
        ranges = {(r.source_idx, r.source_idx + len(r.raw)) for r in v.raw_sliced}
        bad = [s for s in v.sliced_file if (s.source_slice.start, s.source_slice.stop) not in ranges]
        if bad:
            return f"variant has source slice {bad[0].source_slice} = {src[bad[0].source_slice]!r}, which is no raw slice's range"
    return None


def _capture_failed(prop, case, exc):
    """The real templater cannot even process the representative template: report that, replayed by running it again."""
    from lib.runner import Outcome
    from symlite.core import Stats

    def rp(cex):
        try:
            cfg = FluffConfig(overrides={"dialect": "ansi", "templater": "jinja"})
            list(JinjaTemplater().process_with_variants(in_str=CASES[case], fname="f.sql", config=cfg))
        except Exception as e:
            return f"jinja templater on {CASES[case]!r} raises {type(e).__name__}: {str(e)[:200]}"
        return None

    def run(excluded):
        return Outcome("", "CEX", Stats(paths=1, nontrivial=1), cex={"template": CASES[case]},
                       cex_kind=f"exception {type(exc).__name__}: {exc}")
    return Unit(name=f"{prop.lower()}.jinja_trace[{case}]", functions=["JinjaTemplater.process_with_variants"],
                bounds={"template": CASES[case]}, run=run, replay=rp, sharded=False)


def units_for(prop, tier):
    us = []
    cases = ["if_elif_else", "for_expr", "for_if", "two_ifs", "nested_if", "set_macro", "if_only"]
    for case in cases:
        try:
            runs, pairs, _ = capture(case)
        except Exception as e:
            us.append(_capture_failed(prop, case, e))
            continue
        us.append(Unit(
            name=f"{prop.lower()}.jinja_trace[{case}]",
            functions=["sqlfluff.core.templaters.slicers.tracer.JinjaTracer.move_to_slice", "JinjaTracer.record_trace"],
            bounds={"template shape": CASES[case], "raw slice lengths": "all symbolic (>=1)", "rendered lengths of expressions": "symbolic (>=0)"},
            make=make_primary(case), replay="concrete",
            stubs=["shape (slice types, tags, next_slice_indices, visit sequence) from the real JinjaAnalyzer/JinjaTracer run on the "
                   "representative template; texts opaque (AbsStr)"],
            outside=["JinjaAnalyzer.analyze (Jinja's own lexer)", "template shapes not listed"],
            sharded=False, timeout_s=300))
        for vi in range(len(pairs)):
            us.append(Unit(
                name=f"{prop.lower()}.jinja_rectify[{case},variant{vi}]",
                functions=["sqlfluff.core.templaters.jinja.JinjaTemplater._rectify_templated_slices",
                           "JinjaTracer.move_to_slice", "JinjaTracer.record_trace"],
                bounds={"template shape": CASES[case], "variant": vi, "lengths and rewrite deltas": "all symbolic"},
                make=make_variant(case, vi), replay="concrete",
                stubs=["variant shape from the real _handle_unreached_code run; rewrite deltas of if/elif tags symbolic"],
                witnesses_required=["rectified"], sharded=False, timeout_s=300))
    return us


# ---------------------------------------------------------------- every variant of block-built templates (real templater)
VBLOCKS = ["a ", "{% if x %}b {% endif %}", "{% if x %}{% if y %}c {% endif %}{% endif %}", "{% if z %}d {% else %}e {% endif %}",
           "{{ v }} ", "\n", "{% if x %}f {% elif y %}g {% else %}hh {% endif %}", "{% for i in r %}k {% endfor %}",
           "{% if y %}{% if z %}m {% else %}nn {% endif %}{% endif %}"]


def variants_of(src, ctx):
    cfg = FluffConfig(overrides={"dialect": "ansi", "templater": "jinja"})
    return list(JinjaTemplater(override_context=dict(ctx)).process_with_variants(in_str=src, fname="f.sql", config=cfg))


def variant_problems(src, ctx):
    from harness.tmpl_python import check_map
    out = []
    for k, (tf, errs) in enumerate(variants_of(src, ctx)):
        if tf is None:
            continue
        p = check_map(src, tf, control_flow_free=False)
        # clause: every source slice of a variant is the range of a raw slice or a union of adjacent ones
        starts = {r.source_idx for r in tf.raw_sliced} | {len(src)}
        for s in tf.sliced_file:
            if s.source_slice.start not in starts or s.source_slice.stop not in starts:
                p.append(f"slice {s.slice_type} source {s.source_slice} does not start/end on raw slice boundaries")
        if p:
            out.append(f"variant {k} ({tf.templated_str!r}): " + "; ".join(p[:2]))
    return out


def make_variants(n_blocks):
    def factory(excluded=frozenset()):
        def harness(c):
            from symlite.values import choose, fresh_int
            n = int(fresh_int(c, "n_blocks", 1, n_blocks))
            src = "".join(choose(c, f"block{i}", VBLOCKS) for i in range(n))
            ctx = {k: int(fresh_int(c, f"ctx_{k}", 0, 1)) for k in ("x", "y", "z")}
            ctx.update(v="vv", r=[1, 2])
            vs = variants_of(src, ctx)   # REAL process_with_variants
            if len(vs) > 1:
                c.witness("alternate_variant")
            if len(vs) > 2:
                c.witness("several_alternate_variants")
            return not variant_problems(src, ctx)
        return harness
    return factory


def replay_variants(cex):
    n = int(cex.get("n_blocks", 1))
    src = "".join(VBLOCKS[int(cex.get(f"block{i}", 0))] for i in range(n))
    ctx = {k: int(cex.get(f"ctx_{k}", 0)) for k in ("x", "y", "z")}
    ctx.update(v="vv", r=[1, 2])
    p = variant_problems(src, ctx)
    return f"jinja template {src!r} with {ctx}: " + " | ".join(p[:2]) if p else None


def variant_units(prop, tier):
    nb = 2 if tier == "quick" else 3
    return [Unit(
        name=f"{prop.lower()}.jinja_variants[<= {nb} blocks]",
        functions=["sqlfluff.core.templaters.jinja.JinjaTemplater.process_with_variants/_handle_unreached_code/_rectify_templated_slices",
                   "sqlfluff.core.templaters.slicers.tracer.JinjaAnalyzer/JinjaTracer"],
        bounds={"template": f"every concatenation of <= {nb} blocks from {VBLOCKS}", "context": "x, y, z in {0,1}"},
        make=make_variants(nb), replay=replay_variants,
        stubs=["none: real templater on real strings; template and context are solver-forked"],
        outside=["if/elif inside for loops (known finding F5)", "macros, set, whitespace control (see the trace units)"],
        witnesses_required=["alternate_variant", "several_alternate_variants"], sharded=True, timeout_s=900 if tier == "quick" else 3000)]
