"""Placeholder templater harness shared by C07 (source map) and C09 (rendering fidelity)."""
from __future__ import annotations

import z3

from lib.runner import Unit
from symlite.values import AbsStr, RopeStr, SymInt, SymStr, fresh_bool, fresh_int, lift, sym_len

import sqlfluff.core.templaters.base as tbase
import sqlfluff.core.templaters.placeholder as ph
from sqlfluff.core.templaters.placeholder import PlaceholderTemplater


def _bind():
    ph.len = sym_len
    ph.str = lambda x: x if isinstance(x, (SymStr, AbsStr, RopeStr)) else str(x)
    tbase.len = sym_len
    tbase.iter_indices_of_newlines = lambda s: iter(())  # cut: the newline table is irrelevant to tiling / rendering


def _unbind():
    for mod, names in ((ph, ("len", "str")), (tbase, ("len",))):
        for nm in names:
            if nm in vars(mod):
                delattr(mod, nm)
    import importlib
    tbase.iter_indices_of_newlines = _REAL_NL


_REAL_NL = tbase.iter_indices_of_newlines


class Match:
    def __init__(self, span, groups):
        self._span, self._g = span, groups

    def span(self):
        return self._span

    def groupdict(self):
        return self._g

    def __getitem__(self, k):
        return self._g[k]


class Ctxt:
    """Context mapping with symbolic membership: which parameters have a configured value."""

    def __init__(self, c, regex, concrete=None):
        self.c, self.regex, self.vals, self.concrete, self.n = c, regex, {}, concrete, 0

    def __getitem__(self, key):
        if isinstance(key, str) and key == "__bind_param_regex":
            return self.regex
        return self.vals[self._k(key)]

    def _k(self, key):
        return key if isinstance(key, str) else id(key)

    def __contains__(self, key):
        k = self._k(key)
        if k in self.vals:
            return True
        i = self.n
        self.n += 1
        if self.concrete is not None:
            present = bool(self.concrete.get(f"has{i}"))
            if present:
                self.vals[k] = "V" * int(self.concrete.get(f"len_val{i}", 0)) if not self.concrete.get("_distinct") else f"<v{i}>"[: max(0, int(self.concrete.get(f"len_val{i}", 0)))]
            return present
        present = bool(fresh_bool(self.c, f"has{i}"))
        if present:
            self.vals[k] = RopeStr.base(self.c, f"val{i}")
        return present


def make(K, mode, prop):
    """mode: 'named' | 'quoted' | 'unnamed'."""
    def factory(excluded=frozenset()):
        _bind()

        def harness(c):
            src = RopeStr.base(c, "src")
            n = src.symlen()
            spans, prev, groups = [], SymInt(z3.IntVal(0)), []
            for i in range(K):
                a = fresh_int(c, f"a{i}")
                b = fresh_int(c, f"b{i}")
                c.assume(z3.And(a.e >= prev.e, a.e < b.e, b.e <= n.e))
                prev = b
                spans.append((a, b))
                g = {}
                if mode != "unnamed":
                    g["param_name"] = RopeStr.base(c, f"name{i}")
                if mode == "quoted":
                    g["quotation"] = RopeStr.base(c, f"q{i}")
                groups.append(g)

            class Rx:
                def finditer(self, s):
                    return iter([Match(sp, g) for sp, g in zip(spans, groups)])
            t = PlaceholderTemplater()
            ctxt = Ctxt(c, Rx())
            t.get_context = lambda fname, config: ctxt
            tf, errs = t.process(in_str=src, fname="f", config=None)  # REAL (incl. TemplatedFile.__init__ checks)
            out = tf.templated_str
            ok7 = z3.BoolVal(True)
            p = z3.IntVal(0)
            for rs in tf.raw_sliced:
                ok7 = z3.And(ok7, lift(rs.source_idx) == p, RopeStr.coerce(rs.raw).same_as(src[slice(SymInt(p), SymInt(p) + sym_len(rs.raw))]).e)
                p = p + lift(sym_len(rs.raw))
            ok7 = z3.And(ok7, p == n.e)
            tp, sp = z3.IntVal(0), z3.IntVal(0)
            for tfs in tf.sliced_file:
                ok7 = z3.And(ok7, lift(tfs.templated_slice.start) == tp, lift(tfs.source_slice.start) == sp,
                             lift(tfs.source_slice.stop) <= n.e, lift(tfs.source_slice.start) <= lift(tfs.source_slice.stop),
                             lift(tfs.templated_slice.start) <= lift(tfs.templated_slice.stop))
                tp, sp = lift(tfs.templated_slice.stop), lift(tfs.source_slice.stop)
                if tfs.slice_type == "literal":
                    ok7 = z3.And(ok7, RopeStr.coerce(out)[tfs.templated_slice].same_as(src[tfs.source_slice]).e)
            ok7 = z3.And(ok7, tp == RopeStr.coerce(out).symlen().e, sp == n.e)
            # C09: out == src with each span replaced by value-or-name (quotation kept)
            exp, last = RopeStr([]), SymInt(z3.IntVal(0))
            for i, ((a, b), g) in enumerate(zip(spans, groups)):
                key = g["param_name"] if "param_name" in g else str(i + 1)
                rep = ctxt.vals.get(ctxt._k(key), key)
                if mode == "quoted":
                    rep = g["quotation"] + rep + g["quotation"]
                exp = exp + src[slice(last, a)] + rep
                last = b
            exp = exp + src[slice(last, None)]
            ok9 = RopeStr.coerce(out).same_as(exp).e
            if ctxt.vals:
                c.witness("configured_value")
            if len(ctxt.vals) < K:
                c.witness("name_fallback")
            return ok7 if prop == "C07" else z3.And(ok9, z3.BoolVal(errs == []))
        return harness
    return factory


def replay(K, mode, prop):
    def rp(cex):
        _unbind()
        n = int(cex.get("len_src", 0))
        src = "".join("abcdefghijklmnopqrstuvwxyz"[i % 26] for i in range(n))
        spans, groups = [], []
        for i in range(K):
            spans.append((int(cex[f"a{i}"]), int(cex[f"b{i}"])))
            g = {}
            if mode != "unnamed":
                g["param_name"] = "N" * max(1, int(cex.get(f"len_name{i}", 1))) + str(i)
            if mode == "quoted":
                g["quotation"] = "'" * int(cex.get(f"len_q{i}", 0))
            groups.append(g)

        class Rx:
            def finditer(self, s):
                return iter([Match(sp, g) for sp, g in zip(spans, groups)])
        t = PlaceholderTemplater()
        conc = dict(cex)
        ctxt = Ctxt(None, Rx(), concrete=conc)
        t.get_context = lambda fname, config: ctxt
        try:
            tf, errs = t.process(in_str=src, fname="f", config=None)
        except Exception as e:
            return f"process({src!r}, spans={spans}) raises {type(e).__name__}: {e}"
        out = tf.templated_str
        exp, last = "", 0
        for i, ((a, b), g) in enumerate(zip(spans, groups)):
            key = g.get("param_name", str(i + 1))
            rep = ctxt.vals.get(key, key)
            if mode == "quoted":
                rep = g["quotation"] + rep + g["quotation"]
            exp += src[last:a] + rep
            last = b
        exp += src[last:]
        problems = []
        if prop == "C09" and out != exp:
            problems.append(f"rendered {out!r} != expected {exp!r}")
        if "".join(r.raw for r in tf.raw_sliced) != src:
            problems.append("raw slices do not tile the source")
        tp = 0
        for s in tf.sliced_file:
            if s.templated_slice.start != tp:
                problems.append(f"templated slices not contiguous at {s}")
            tp = s.templated_slice.stop
            if not (0 <= s.source_slice.start <= s.source_slice.stop <= n):
                problems.append(f"source slice out of bounds {s}")
            if s.slice_type == "literal" and out[s.templated_slice] != src[s.source_slice]:
                problems.append(f"literal slice {s} maps {src[s.source_slice]!r} to {out[s.templated_slice]!r}")
        if tp != len(out):
            problems.append("templated slices do not cover the output")
        return (f"source={src!r} spans={spans} groups={groups}: " + "; ".join(problems)) if problems else None
    return rp


def units_for(prop, tier):
    cfg = [(1, "named"), (2, "named"), (1, "quoted"), (2, "unnamed")] if tier == "quick" else \
          [(2, "named"), (3, "named"), (2, "quoted"), (3, "unnamed"), (4, "named")]
    us = []
    for K, mode in cfg:
        us.append(Unit(
            name=f"{prop.lower()}.placeholder[{K} params,{mode}]",
            functions=["sqlfluff.core.templaters.placeholder.PlaceholderTemplater.process",
                       "sqlfluff.core.templaters.base.TemplatedFile.__init__ (consistency checks)"],
            bounds={"matched parameters": K, "style": mode, "source length / span positions / names / values": "unbounded, opaque text"},
            make=make(K, mode, prop), replay=replay(K, mode, prop),
            stubs=["regex.finditer -> arbitrary non-empty, in-bounds, left-to-right non-overlapping spans with opaque group texts",
                   "context membership -> symbolic Boolean per parameter; values opaque texts",
                   "iter_indices_of_newlines -> empty (irrelevant to tiling)"],
            outside=["which text the KNOWN_STYLES regexes match"],
            witnesses_required=["configured_value", "name_fallback"], sharded=True,
            timeout_s=200 if tier == "quick" else 1500))
    return us
