"""Python-format templater: _slice_template offset arithmetic with a stubbed string.Formatter().parse (C07-2 / C09-3)."""
from __future__ import annotations

import z3

from lib.runner import Unit
from symlite.values import AbsStr, SymInt, choose, fresh_bool, fresh_int, lift, sym_len

import sqlfluff.core.templaters.python as py
from sqlfluff.core.templaters.python import PythonTemplater

FIELDS = ["a", "ab"]
SPECS = ["", ">3", "{w}"]
CONVS = [None, "r"]


class LitText:
    """Literal text as yielded by Formatter.parse: `plain` opaque characters (no braces) followed by at most one brace
    character (the real parser splits the literal at every escape, and un-doubles it)."""

    def __init__(self, plain, brace, off=0, has_brace=True):
        self.plain, self.brace, self.off, self.has_brace = plain, brace, off, has_brace and bool(brace)

    def symlen(self):
        return self.plain + (1 if self.has_brace else 0) - self.off

    def __bool__(self):
        return bool(self.symlen() > 0)

    def find(self, sub, start=0):
        if self.has_brace and sub == self.brace:
            pos = self.plain - self.off
            return SymInt(z3.If(lift(start) <= lift(pos), lift(pos), -1))
        return -1

    def __getitem__(self, k):
        a = 0 if k.start is None else k.start
        b = self.symlen() if k.stop is None else k.stop
        # the piece [a, b): opaque text whose only observable is its length
        return AbsStr(b - a)


def _bind():
    py.len = sym_len
    AbsStr.__mul__ = lambda self, k: AbsStr(self.n * k)  # `brace * 2`


def make(K):
    def factory(excluded=frozenset()):
        _bind()

        def harness(c):
            tuples, true_len = [], SymInt(z3.IntVal(0))
            for i in range(K):
                plain = fresh_int(c, f"plain{i}", 0)
                brace = choose(c, f"brace{i}", ["", "{", "}"])
                lit = LitText(plain, brace)
                true_len = true_len + plain + (2 if brace else 0)
                has_field = bool(fresh_bool(c, f"field{i}"))
                if has_field:
                    fname = choose(c, f"fname{i}", FIELDS)
                    conv = choose(c, f"conv{i}", CONVS)
                    has_colon = bool(fresh_bool(c, f"colon{i}"))
                    spec = choose(c, f"spec{i}", SPECS) if has_colon else ""
                    if "F3" in excluded and has_colon and spec == "":
                        from symlite.core import Abort
                        raise Abort()  # known finding F3: `{a:}` (colon with empty spec) is reconstructed one char short
                    true_len = true_len + (2 + len(fname) + (2 if conv else 0) + (1 + len(spec) if has_colon else 0))
                    tuples.append((lit, fname, spec, conv))
                else:
                    tuples.append((lit, None, None, None))

            class F:
                def parse(self, s):
                    return iter(tuples)
            py.Formatter = F
            try:
                slices = list(PythonTemplater._slice_template(AbsStr(true_len)))  # REAL
            finally:
                py.Formatter = _REAL_FORMATTER
            pos = z3.IntVal(0)
            ok = z3.BoolVal(True)
            for s in slices:
                ok = z3.And(ok, lift(s.source_idx) == pos, lift(sym_len(s.raw)) >= 1)
                pos = pos + lift(sym_len(s.raw))
            if any(s.slice_type == "escaped" for s in slices):
                c.witness("escaped")
            if any(s.slice_type == "templated" for s in slices):
                c.witness("templated")
            return z3.And(ok, pos == true_len.e)
        return harness
    return factory


_REAL_FORMATTER = py.Formatter


def build_source(K, cex):
    src = ""
    for i in range(K):
        brace = ["", "{", "}"][int(cex.get(f"brace{i}", 0))]
        src += "x" * int(cex.get(f"plain{i}", 0)) + brace * 2
        if cex.get(f"field{i}"):
            fname = FIELDS[int(cex.get(f"fname{i}", 0))]
            conv = CONVS[int(cex.get(f"conv{i}", 0))]
            has_colon = bool(cex.get(f"colon{i}"))
            spec = SPECS[int(cex.get(f"spec{i}", 0))] if has_colon else ""
            src += "{" + fname + (f"!{conv}" if conv else "") + (":" + spec if has_colon else "") + "}"
    return src


def replay(K):
    def rp(cex):
        if "len" in vars(py):
            del py.len
        py.Formatter = _REAL_FORMATTER
        src = build_source(K, cex)
        try:
            "".join(lit + "" for lit, *_ in _REAL_FORMATTER().parse(src))
        except ValueError:
            return None  # not a valid format string: outside the property
        slices = list(PythonTemplater._slice_template(src))
        pos = 0
        for s in slices:
            if s.source_idx != pos:
                return f"format string {src!r}: raw slice {s} starts at {s.source_idx}, running length is {pos}"
            pos += len(s.raw)
        if pos != len(src) or "".join(s.raw for s in slices) != src:
            return f"format string {src!r}: raw slices {[s.raw for s in slices]} do not tile the source (total {pos} != {len(src)})"
        return None
    return rp


def known_f3(entry):
    """python templater on a valid format string with `{a:}`: the source map is inconsistent (AssertionError)."""
    t = PythonTemplater(override_context=entry["replay"]["context"])
    try:
        tf, _ = t.process(in_str=entry["replay"]["source"], fname="f.sql")
    except AssertionError as e:
        return f"process raises AssertionError: {str(e)[:80]}"
    except Exception as e:
        return f"process raises {type(e).__name__}: {str(e)[:80]}"
    if "".join(s.raw for s in tf.raw_sliced) != entry["replay"]["source"]:
        return "raw slices do not tile the source"
    return None


def units_for(prop, tier):
    return [Unit(
        name=f"{prop.lower()}.python_slice_template[{K} parse tuples]",
        functions=["sqlfluff.core.templaters.python.PythonTemplater._slice_template", "PythonTemplater._substring_occurrences",
                   "PythonTemplater._sorted_occurrence_tuples", "sqlfluff.core.helpers.string.findall"],
        bounds={"Formatter.parse tuples": K, "literal lengths": "unbounded", "field names": FIELDS, "specs": SPECS, "conversions": CONVS},
        make=make(K), replay=replay(K),
        stubs=["string.Formatter().parse -> arbitrary tuples: literal = opaque brace-free text + at most one (un-doubled) brace "
               "as last character; field/conversion/spec concrete from small sets; ghost true source length from the format "
               "grammar ('{' field ['!'c] [':' spec] '}', the ':' may be present with an empty spec). The contract is "
               "validated by the replay, which feeds the rebuilt source to the real Formatter"],
        outside=["slice_file's occurrence/invariant heuristics", "format_spec mini-language semantics"],
        witnesses_required=["escaped", "templated"], sharded=True, timeout_s=200 if tier == "quick" else 1500)
        for K in ([1, 2] if tier == "quick" else [2, 3])]
