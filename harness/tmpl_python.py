"""Python-format templater: _slice_template offset arithmetic with a stubbed string.Formatter().parse (C07-2 / C09-3)."""
from __future__ import annotations

import z3

from lib.runner import Unit
from symlite.values import AbsStr, SymInt, choose, fresh_bool, fresh_int, lift, sym_len

import sqlfluff.core.templaters.python as py
from sqlfluff.core.templaters.python import PythonTemplater

FIELDS = ["a", "ab"]
SPECS = ["", ">3", "{w}"]
CONVS = [None, "r"]


class LitText:
    """Literal text as yielded by Formatter.parse: `plain` opaque characters (no braces) followed by at most one brace
    character (the real parser splits the literal at every escape, and un-doubles it)."""

    def __init__(self, plain, brace, off=0, has_brace=True):
        self.plain, self.brace, self.off, self.has_brace = plain, brace, off, has_brace and bool(brace)

    def symlen(self):
        return self.plain + (1 if self.has_brace else 0) - self.off

    def __bool__(self):
        return bool(self.symlen() > 0)

    def find(self, sub, start=0):
        if self.has_brace and sub == self.brace:
            pos = self.plain - self.off
            return SymInt(z3.If(lift(start) <= lift(pos), lift(pos), -1))
        return -1

    def __getitem__(self, k):
        a = 0 if k.start is None else k.start
        b = self.symlen() if k.stop is None else k.stop
        # the piece [a, b): opaque text whose only observable is its length
        return AbsStr(b - a)


def _bind():
    py.len = sym_len
    AbsStr.__mul__ = lambda self, k: AbsStr(self.n * k)  # `brace * 2`


def make(K):
    def factory(excluded=frozenset()):
        _bind()

        def harness(c):
            tuples, true_len = [], SymInt(z3.IntVal(0))
            for i in range(K):
                plain = fresh_int(c, f"plain{i}", 0)
                brace = choose(c, f"brace{i}", ["", "{", "}"])
                lit = LitText(plain, brace)
                true_len = true_len + plain + (2 if brace else 0)
                has_field = bool(fresh_bool(c, f"field{i}"))
                if has_field:
                    fname = choose(c, f"fname{i}", FIELDS)
                    conv = choose(c, f"conv{i}", CONVS)
                    has_colon = bool(fresh_bool(c, f"colon{i}"))
                    spec = choose(c, f"spec{i}", SPECS) if has_colon else ""
                    if "F3" in excluded and has_colon and spec == "":
                        from symlite.core import Abort
                        raise Abort()  # known finding F3: `{a:}` (colon with empty spec) is reconstructed one char short
                    true_len = true_len + (2 + len(fname) + (2 if conv else 0) + (1 + len(spec) if has_colon else 0))
                    tuples.append((lit, fname, spec, conv))
                else:
                    tuples.append((lit, None, None, None))

            class F:
                def parse(self, s):
                    return iter(tuples)
            py.Formatter = F
            try:
                slices = list(PythonTemplater._slice_template(AbsStr(true_len)))  # REAL
            finally:
                py.Formatter = _REAL_FORMATTER
            pos = z3.IntVal(0)
            ok = z3.BoolVal(True)
            for s in slices:
                ok = z3.And(ok, lift(s.source_idx) == pos, lift(sym_len(s.raw)) >= 1)
                pos = pos + lift(sym_len(s.raw))
            if any(s.slice_type == "escaped" for s in slices):
                c.witness("escaped")
            if any(s.slice_type == "templated" for s in slices):
                c.witness("templated")
            return z3.And(ok, pos == true_len.e)
        return harness
    return factory


_REAL_FORMATTER = py.Formatter


def build_source(K, cex):
    src = ""
    for i in range(K):
        brace = ["", "{", "}"][int(cex.get(f"brace{i}", 0))]
        src += "x" * int(cex.get(f"plain{i}", 0)) + brace * 2
        if cex.get(f"field{i}"):
            fname = FIELDS[int(cex.get(f"fname{i}", 0))]
            conv = CONVS[int(cex.get(f"conv{i}", 0))]
            has_colon = bool(cex.get(f"colon{i}"))
            spec = SPECS[int(cex.get(f"spec{i}", 0))] if has_colon else ""
            src += "{" + fname + (f"!{conv}" if conv else "") + (":" + spec if has_colon else "") + "}"
    return src


def replay(K):
    def rp(cex):
        if "len" in vars(py):
            del py.len
        py.Formatter = _REAL_FORMATTER
        src = build_source(K, cex)
        try:
            "".join(lit + "" for lit, *_ in _REAL_FORMATTER().parse(src))
        except ValueError:
            return None  # not a valid format string: outside the property
        slices = list(PythonTemplater._slice_template(src))
        pos = 0
        for s in slices:
            if s.source_idx != pos:
                return f"format string {src!r}: raw slice {s} starts at {s.source_idx}, running length is {pos}"
            pos += len(s.raw)
        if pos != len(src) or "".join(s.raw for s in slices) != src:
            return f"format string {src!r}: raw slices {[s.raw for s in slices]} do not tile the source (total {pos} != {len(src)})"
        return None
    return rp


def known_f3(entry):
    """python templater on a valid format string with `{a:}`: the source map is inconsistent (AssertionError)."""
    t = PythonTemplater(override_context=entry["replay"]["context"])
    try:
        tf, _ = t.process(in_str=entry["replay"]["source"], fname="f.sql")
    except AssertionError as e:
        return f"process raises AssertionError: {str(e)[:80]}"
    except Exception as e:
        return f"process raises {type(e).__name__}: {str(e)[:80]}"
    if "".join(s.raw for s in tf.raw_sliced) != entry["replay"]["source"]:
        return "raw slices do not tile the source"
    return None


def units_for(prop, tier):
    return [Unit(
        name=f"{prop.lower()}.python_slice_template[{K} parse tuples]",
        functions=["sqlfluff.core.templaters.python.PythonTemplater._slice_template", "PythonTemplater._substring_occurrences",
                   "PythonTemplater._sorted_occurrence_tuples", "sqlfluff.core.helpers.string.findall"],
        bounds={"Formatter.parse tuples": K, "literal lengths": "unbounded", "field names": FIELDS, "specs": SPECS, "conversions": CONVS},
        make=make(K), replay=replay(K),
        stubs=["string.Formatter().parse -> arbitrary tuples: literal = opaque brace-free text + at most one (un-doubled) brace "
               "as last character; field/conversion/spec concrete from small sets; ghost true source length from the format "
               "grammar ('{' field ['!'c] [':' spec] '}', the ':' may be present with an empty spec). The contract is "
               "validated by the replay, which feeds the rebuilt source to the real Formatter"],
        outside=["slice_file's occurrence/invariant heuristics", "format_spec mini-language semantics"],
        witnesses_required=["escaped", "templated"], sharded=True, timeout_s=200 if tier == "quick" else 1500)
        for K in ([1, 2] if tier == "quick" else [2, 3])]


# ---------------------------------------------------------------- whole PythonTemplater.process on small real templates

PIECES = ["a ", "b", "{x}", "{y}", "{{", "}}", " "]
XVALS = ["", "v", "b"]
YVALS = ["", "a ", "w"]


def check_map(src, tf, control_flow_free=True):
    """The C07 clauses on a real TemplatedFile; returns a list of problems."""
    problems = []
    if "".join(r.raw for r in tf.raw_sliced) != src:
        problems.append("raw slices do not tile the source")
    pos = 0
    for r in tf.raw_sliced:
        if r.source_idx != pos:
            problems.append(f"raw slice {r.raw!r} starts at {r.source_idx}, expected {pos}")
        pos += len(r.raw)
    tp, sp = 0, 0
    for s in tf.sliced_file:
        if s.templated_slice.start != tp:
            problems.append(f"rendered slices not contiguous at {s}")
        tp = s.templated_slice.stop
        if not (0 <= s.source_slice.start <= s.source_slice.stop <= len(src)):
            problems.append(f"source slice outside the file: {s}")
        if control_flow_free:
            # a templater without control flow maps the source left to right without gaps or overlaps
            if s.source_slice.start != sp:
                problems.append(f"source text {src[sp:s.source_slice.start]!r} at {sp} is mapped by no slice (next slice {s})")
            sp = s.source_slice.stop
        if s.slice_type == "literal" and tf.templated_str[s.templated_slice] and tf.templated_str[s.templated_slice] != src[s.source_slice]:
            problems.append(f"literal slice {s} maps {src[s.source_slice]!r} to {tf.templated_str[s.templated_slice]!r}")
    if tp != len(tf.templated_str):
        problems.append("rendered slices do not cover the output")
    if control_flow_free and sp != len(src):
        problems.append(f"source tail {src[sp:]!r} is mapped by no slice")
    return problems


def run_process(src, ctx):
    tf, _ = PythonTemplater(override_context=ctx).process(in_str=src, fname="f.sql")
    return tf


def _cfg_ctx(ctx):
    from sqlfluff.core import FluffConfig
    return FluffConfig(overrides={"dialect": "ansi", "templater": "python"}, configs={"templater": {"python": {"context": dict(ctx)}}})


def history_problem(src, ctx):
    """One PythonTemplater object renders an earlier file whose context defines x, y AND z, then `src` with a context that
    defines only y: the second rendering must be what str.format gives with ITS context (a missing name is an error)."""
    from sqlfluff.core.errors import SQLTemplaterError
    t = PythonTemplater()
    t.process(in_str="{x}{y}{z}", fname="earlier.sql", config=_cfg_ctx({"x": "OLDX", "y": "OLDY", "z": "OLDZ"}))   # REAL
    own = {"y": ctx["y"]}
    try:
        exp = src.format(**own)
    except KeyError:
        exp = None
    except Exception:
        return None
    try:
        tf, _ = t.process(in_str=src, fname="f.sql", config=_cfg_ctx(own))   # REAL, same object
        got = tf.templated_str
    except SQLTemplaterError:
        got = None
    except Exception as e:
        return f"raises {type(e).__name__}: {str(e)[:80]}"
    if got != exp:
        return (f"python templater object reused after a file with context x,y,z: {src!r} with context {own} renders {got!r}, "
                f"str.format gives {'an error (missing name)' if exp is None else repr(exp)}")
    return None


def make_process(n_pieces, prop):
    def factory(excluded=frozenset()):
        def harness(c):
            n = int(fresh_int(c, "n_pieces", 1, n_pieces))
            src = "".join(choose(c, f"piece{i}", PIECES) for i in range(n))
            ctx = {"x": choose(c, "x_value", XVALS), "y": choose(c, "y_value", YVALS)}
            try:
                exp = src.format(**ctx)
            except Exception:
                from symlite.core import Abort
                raise Abort()  # not a valid format string: outside the property
            if "PY_COLLIDE" in excluded and _collides(src, ctx):
                from symlite.core import Abort
                raise Abort()
            if "PY_COLLIDE_SKIP" in excluded and (_collides(src, ctx) or _shares_text(src, ctx)):
                from symlite.core import Abort
                raise Abort()
            if "PY_COLLIDE_PARTIAL" in excluded and _shares_text(src, ctx):
                from symlite.core import Abort
                raise Abort()
            if prop == "C09" and bool(fresh_bool(c, "templater_instance_used_before")):
                # history: the SAME templater object rendered another file first, whose config context defined more names
                c.witness("templater_reused")
                return history_problem(src, ctx) is None
            tf = run_process(src, ctx)  # REAL
            if any(s.slice_type == "templated" and s.templated_slice.start == s.templated_slice.stop for s in tf.sliced_file):
                c.witness("empty_rendering_field")
            c.witness("rendered")
            if prop == "C09":
                return tf.templated_str == exp
            if prop == "C01":
                return not lex_problems(src, tf)
            return not check_map(src, tf, control_flow_free=False)
        return harness
    return factory


def _shares_text(src, ctx):
    """known finding PY_COLLIDE_PARTIAL (same root cause as PY_COLLIDE, weaker trigger): a non-empty context value that is
    actually rendered shares at least one character with some literal text of the template."""
    import string
    parsed = list(string.Formatter().parse(src))
    lits = [lit for lit, *_ in parsed if lit]
    used = {f for _, f, *_ in parsed if f}
    return any(v and k in used and any(set(v) & set(lt) for lt in lits) for k, v in ctx.items())


def _collides(src, ctx):
    """known finding PY_COLLIDE: a context value whose text also occurs as (part of) literal text of the template, or a
    literal occurring more than once, defeats the occurrence-based slicing heuristics."""
    import string
    lits = [lit for lit, *_ in string.Formatter().parse(src) if lit]
    joined = "".join(lits)
    for v in ctx.values():
        if v and (v in joined or any(lt and lt in v for lt in lits)):
            return True
    rendered = src.format(**ctx)
    for lt in lits:
        if lt and (rendered.count(lt) > 1 or src.count(lt) > 1):
            return True
    return False


def replay_process(n_pieces, prop):
    def rp(cex):
        n = int(cex.get("n_pieces", 1))
        src = "".join(PIECES[int(cex.get(f"piece{i}", 0))] for i in range(n))
        ctx = {"x": XVALS[int(cex.get("x_value", 0))], "y": YVALS[int(cex.get("y_value", 0))]}
        if prop == "C09" and cex.get("templater_instance_used_before"):
            return history_problem(src, ctx)
        try:
            exp = src.format(**ctx)
        except Exception:
            return None
        try:
            tf = run_process(src, ctx)
        except Exception as e:
            return f"python templater on {src!r} with {ctx} raises {type(e).__name__}: {str(e)[:100]}"
        if prop == "C09":
            return None if tf.templated_str == exp else f"{src!r} with {ctx}: renders {tf.templated_str!r}, str.format gives {exp!r}"
        if prop == "C01":
            p = lex_problems(src, tf)
            return f"python templater, {src!r} with {ctx} -> {tf.templated_str!r}: " + "; ".join(p[:3]) if p else None
        p = check_map(src, tf, control_flow_free=False)
        return f"python templater, {src!r} with {ctx} -> {tf.templated_str!r}, slices {[(s.slice_type, s.source_slice.start, s.source_slice.stop, s.templated_slice.start, s.templated_slice.stop) for s in tf.sliced_file]}: " + "; ".join(p[:3]) if p else None
    return rp


def lex_problems(src, tf):
    """C01's statement on the real lexer output for a real TemplatedFile."""
    from sqlfluff.core import FluffConfig
    from sqlfluff.core.parser import Lexer
    segs, errs = Lexer(config=FluffConfig(overrides={"dialect": "ansi"})).lex(tf)
    problems = []
    toks = [s for s in segs if not s.is_meta]
    if "".join(s.raw for s in toks) != tf.templated_str:
        problems.append(f"tokens concatenate to {''.join(s.raw for s in toks)!r}, rendered is {tf.templated_str!r}")
    tp, sp, cov = 0, 0, set()
    for s in segs:
        ts, ss = s.pos_marker.templated_slice, s.pos_marker.source_slice
        if not (0 <= ss.start <= ss.stop <= len(src)):
            problems.append(f"source slice {ss} of {s.raw!r} out of bounds")
        if not s.is_meta:
            if ts.start != tp or ts.stop - ts.start != len(s.raw):
                problems.append(f"templated slice {ts} of {s.raw!r} not contiguous")
            tp = ts.stop
            if ss.start < sp:
                problems.append(f"source position decreases at {s.raw!r}: {ss}")
            sp = ss.start
        if not s.is_meta or s.is_type("placeholder"):
            cov |= set(range(ss.start, ss.stop))
    missing = sorted(set(range(len(src))) - cov)
    if missing:
        problems.append(f"source characters at offsets {missing} ({''.join(src[i] for i in missing)!r}) are covered by no token or placeholder")
    return problems


def known_collide_skip(entry):
    """C07/C09 face of the same defect: the templater gives up on a valid format string (SQLFluffSkipFile)."""
    src, ctx = entry["replay"]["source"], entry["replay"]["context"]
    try:
        tf = run_process(src, ctx)
    except Exception as e:
        return f"python templater on {src!r} with {ctx} raises {type(e).__name__}: {str(e)[:90]} (str.format renders {src.format(**ctx)!r})"
    return None if tf.templated_str == src.format(**ctx) else f"{src!r} renders {tf.templated_str!r}"


def known_collide(entry):
    tf = run_process(entry["replay"]["source"], entry["replay"]["context"])
    p = lex_problems(entry["replay"]["source"], tf)
    return "; ".join(p[:2]) if p else None


def process_units(prop, tier):
    n = 3 if tier == "quick" else 4
    return [Unit(
        name=f"{prop.lower()}.python_process[<= {n} pieces]",
        functions=["sqlfluff.core.templaters.python.PythonTemplater.process/slice_file/_split_invariants/_split_uniques_coalesce_rest/"
                   "_check_for_wrapped", "IntermediateFileSlice.coalesce/try_simple/trim_ends"],
        bounds={"template": f"every concatenation of <= {n} pieces from {PIECES}", "x": XVALS, "y": YVALS},
        make=make_process(n, prop), replay=replay_process(n, prop),
        stubs=["none: real templater on real strings; template and context are solver-forked"],
        assumptions=["a templater without control flow must map the source left to right without gaps (our reading of 'consistent')"],
        outside=["templates outside this piece alphabet"],
        witnesses_required=["rendered", "empty_rendering_field"] + (["templater_reused"] if prop == "C09" else []), sharded=True,
        timeout_s=600 if tier == "quick" else 2400)]
