"""Claim tables for MANIFEST.json. Keep in step with harness/ and DESIGN.md."""
FORK = " (finite outcome space enumerated through solver-decided forks; counterexamples replayed through the real CLI on real files)"
SYM = "solver-based: bounded symbolic execution of the real functions (symlite proxies over z3; per-path VC discharged by z3; CEX replayed)"

CLAIMS = {
    "C01": dict(design_ref="§3 C01", technique=SYM + "; plus direct z3 regex-inclusion query per dialect",
                text="Kernels of the lexer, each for ALL lengths/offsets within a bounded structure: (1) StringLexer.match/_subdivide/"
                     "_trim_match are lossless for any contract-respecting search results (<=2..4 hits); (2) the PyLexer.lex / lex_match "
                     "loops tile the input and never raise given the whitespace/newline/last-resort contract, which (3) is proved by a z3 "
                     "regex query on every dialect's live matcher patterns; (4) map_template_slices + _iter_segments + "
                     "_handle_zero_length_slice over 17 slice shapes (literal/templated/escaped/comment/blocks, loops = backward jump, "
                     "skipped branches = forward jump) x <=4 lexed elements: templated slices tile the rendering with len(raw)==slice "
                     "length, source slices in bounds and non-decreasing (reset at loop markers), every source offset covered by a token "
                     "or placeholder, template indents balance, one LXR error per unlexable token - also after the token stream has "
                     "passed the real Linter._lex_templated_file filter with template_blocks_indent forked over True / False / 'force'; (5) whole PythonTemplater.process + lexer "
                     "position mapping on every <=3-piece format template (literal/field pieces, empty and repeated renderings): every "
                     "source offset is covered.",
                note="Assumes the TemplatedFile tiling invariant (C07) and that trim patterns are maximal runs (X+; checked "
                     "syntactically). The content of the ~150 dialect regexes (which text becomes which token) is outside. "
                     "Known finding F18 (token spanning a loop jump) is excluded by pattern."),
    "C02": dict(design_ref="§3 C02", technique=SYM,
                text="(1) Inductive step of MatchResult.apply for a node with <=3 arbitrary children and <=2 inserts over an opaque "
                     "token sequence of UNBOUNDED length: leaves tile tokens[start:stop] in order, each insert materialises exactly once "
                     "at its index (children's own apply = induction hypothesis, so any depth). (2) Real Sequence/Bracketed/AnyNumberOf/"
                     "OneOf/Delimited.match (+ longest_match, greedy_match, trim_to_terminator, _flush_metas) with stub children "
                     "returning arbitrary well-formed results, all token-kind patterns over N<=4 tokens, every parse mode (Delimited also with "
                     "allow_trailing / optional delimiter / min_delimiters forked): the result "
                     "satisfies the well-formedness invariant I, starts at idx, leaves no code token outside a child (unmatched code is "
                     "inside an unparsable child) and materialises to exactly the input tokens. (3) root_parse wraps unmatched code in "
                     "one unparsable node and keeps every token.",
                note="Induction hypothesis: child grammars return results satisfying invariant I. Termination/intended parse of the "
                     "composed recursion over a real dialect, and Parser.parse end-to-end, are outside. check_still_complete is not relied on."),
    "C03": dict(design_ref="§3 C03", technique=SYM + "; plus z3 Fixedpoint (Datalog) indent-balance relation over every dialect's live grammar graph",
                text="(1) Real BaseSegment.__init__/from_child_markers/validate_non_code_ends over children with arbitrary slices: parent = "
                     "[min start, max stop) in source and templated space; a node is rejected iff it begins/ends with non-code. (2) For "
                     "EVERY bundled dialect and every tested assignment of the indentation config flags, z3's Datalog engine decides the "
                     "relation Bal(node, net, min-prefix) over the complete grammar graph: every complete parse has net balance 0 and no "
                     "negative prefix (unbounded input length; saturating at +-3). (3) The rule model used in (2) is checked on the real "
                     "Sequence.match / Bracketed.match with stub children carrying loose and wrapped inserts (sum of inserts = rule "
                     "formula, incl. Bracketed dropping its content's loose metas). A Datalog candidate is replayed by parsing the "
                     "dialect's own fixtures that mention the culprit segment's keywords with the real parser under the candidate's full flag "
                     "assignment; a candidate no fixture reproduces makes the unit inconclusive (exit 2), not proved.",
                note="Trusted: the rule model for AnyNumberOf/Delimited (union/repetition) and the graph walker; greedy partial matches "
                     "and reindent.py's consumer are outside. Template-block indents are covered by C01's balance oracle."),
    "C04": dict(design_ref="§3 C04", technique=SYM,
                text="Narrow: ParseContext.deeper_match (symbolic limit and initial depth, 1..3 nested matches: SQLParseError iff the limit "
                     "is exceeded, depth restored otherwise), increment_parse_nodes (unbounded limit/current/count), Linter._parse_tokens "
                     "(node-limit pre-check with symbolic limit; a parser that raises SQLParseError with or without a segment, or returns "
                     "None, yields a PRS violation and never raises), Linter.render_string (SQLTemplaterError / SQLFluffSkipFile raised "
                     "after 0..2 variants are captured), SequentialRunner (an arbitrary exception while linting one file is swallowed and "
                     "the other files still lint). Whole run under a SYMBOLIC node limit: Linter.lint_string (all default rules, fix mode; "
                     "thorough also lint mode) on two inputs with max_parse_nodes a z3 integer - every comparison of the node count with "
                     "the limit in the initial parse, the pre-check and every re-parse validating a fix is solver-decided, so every "
                     "interval of limits is one path: it returns for every limit. lint_parsed over every parsed / not-parsed combination "
                     "of the variants of a real jinja if/else file. Files whose bytes do not fit the configured encoding (5 characters x 4 file "
                     "encodings x 6 configured encodings, lint and fix) are linted or skipped, never a crash. Every other harness also treats an undeclared exception as a violation.",
                note="Crash-freedom of the whole pipeline over arbitrary SQL is not encodable. F27 (re-parse crossing the limit), F31 (utf-16 without BOM), F32 (OptionallyDelimited) fixed. Known findings F1 (dangling refs -> "
                     "RuntimeError) and F3 (python templater AssertionError) are crashes and are reported as KNOWN-FINDING here."),
    "C05": dict(design_ref="§3 C05", technique=SYM + FORK.replace("through the real CLI on real files", "on the real kernel and, where expressible, by linting rendered SQL in 4 dialects"),
                text="Anchored kernels only: (1) the real Rule_LT08._eval forward scan never raises for ANY sequence of <=4 (thorough 6) "
                     "segments of 7 kinds (comma, newline, whitespace, comment, code, CYCLE keyword, bracketed) following a CTE bracket; "
                     "(2) the real BaseRule.crawl converts an exception raised by _eval at any visited segment into exactly one "
                     "'Unexpected exception' violation and does not raise; (3) EVERY bundled rule, lint and fix mode, on every slot "
                     "combination of four construct families parsed by the real parser (CASE incl. no-WHEN and nested forms; CAST / "
                     "CONVERT / :: incl. 1- and 3-argument calls under 4 casting styles; CTE followed by comments / brackets / set "
                     "operators; SELECT targets x table forms x joins x tails, in mysql also with identifier-less references such as @v "
                     "and USING joins) in ansi and mysql (thorough: + postgres, tsql, bigquery, snowflake, oracle with their own special "
                     "references): "
                     "no 'Unexpected exception' violation.",
                note="Rule bodies are exercised only on the listed construct families; other constructs are outside. F2, F28, F29 fixed."),
    "C06": dict(design_ref="§3 C06", technique=SYM + "; plus z3 Fixedpoint (Datalog) FIRST-set closure over every dialect's live grammar graph",
                text="(1) For all 28 dialects z3's Datalog engine computes FIRST(node) over the complete grammar graph and shows that the "
                     "live simple() hint of EVERY hinted element (thousands per dialect) contains every token class the element can start "
                     "with and that no hinted element can start with a non-enumerable token - i.e. first-token pruning never discards a "
                     "viable option. (2) Real prune_options over options with arbitrary hints (None / raw sets / type sets) keeps "
                     "exactly the options whose hint admits the first non-whitespace token. (3) Lexing file B after an arbitrary file A "
                     "in the same process (class-level BlockTracker state, incl. a block left open) yields the same segments modulo "
                     "uuid renaming. (4) The per-parse-context cache of simple(): every sequence of 3 (thorough 4) calls over a grammar, "
                     "its insert / remove / terminator copies and an unrelated grammar in 2 contexts returns each object's own hint.",
                note="Assumes leaf parsers' own hints; the parse cache keyed without inherited terminators and equality of whole trees "
                     "on real SQL are outside (stub-level cache divergences are not replayable through the API)."),
    "C07": dict(design_ref="§3 C07", technique=SYM,
                text="(1) Real PlaceholderTemplater.process (+ TemplatedFile.__init__ checks) for <=2 (thorough 4) matched parameters at "
                     "arbitrary spans over an opaque source of unbounded length: raw slices tile the source, templated slices tile the "
                     "output, source slices in bounds, literal slices map to identical text. (2) PythonTemplater._slice_template with a "
                     "contract-stubbed Formatter.parse: raw slices tile the true source length. (3) Real JinjaTracer.move_to_slice/"
                     "record_trace and JinjaTemplater._rectify_templated_slices on 7 template shapes (if/elif/else, for, for+if, two ifs, "
                     "nested if, set+macro) taken from the real analyzer, with EVERY raw-slice length, rendered length and rewrite delta "
                     "symbolic: each recorded (and rectified) source slice is exactly its raw slice's original range; templated slices "
                     "contiguous. (4) Whole PythonTemplater.process on every <=3-piece template, and real "
                     "JinjaTemplater.process_with_variants on every template of <=2 (thorough 3) blocks from a 9-block pool (nested and "
                     "chained ifs, if/elif/else, for, expression) x contexts: EVERY variant satisfies the stated clauses and its source "
                     "slices start and end on raw-slice boundaries.",
                note="Known findings F3 ({a:} python) and F5 (rewritten tag revisited in a loop) excluded by pattern. Templates outside the pools are outside."),
    "C08": dict(design_ref="§3 C08", technique="solver-based: z3 regex queries over the fast-path literal vs the live Jinja Environment + symlite on the gate condition",
                text="The marker-free fast path of JinjaTemplater.process: z3 shows that no string without a match of the gate regex (read "
                     "from the AST) contains a begin-delimiter of the LIVE Environment, that newline normalisation leaves no CR, and the "
                     "six-flag gate condition is explored exhaustively on the real process(); live env facts keep_trailing_newline/"
                     "newline_sequence are checked. Slow path: for every template of <=2 (thorough 3) blocks from a 14-block alphabet "
                     "(expressions, whitespace control, if/else, for, set, comment, undefined name, 'is defined') x contexts with "
                     "absent / falsy / truthy values the primary rendering of the real JinjaTemplater.process equals a plain jinja2 render.",
                note="Known finding F25 (an undefined variable becomes a truthy stand-in object): while listed, templates that reference "
                     "an undefined name are compared with Jinja rendering the same stand-in. Macros, libraries, dbt builtins are outside."),
    "C09": dict(design_ref="§3 C09", technique=SYM + "; plus z3 regex queries on the dot-notation re.sub pattern (read from the AST) with replay vs str.format",
                text="(1) placeholder: output == source with each matched span replaced by its configured value or its name (quotation "
                     "kept), for all spans/texts within <=2..4 parameters. (2) python dot-notation hack: z3 finds no valid format string "
                     "(small alphabet, length<=8) without dotted fields that the hack rewrites, and no dotted field (length<=12) that it "
                     "fails to rewrite; every model is replayed against the real templater vs a string.Formatter reference. (3) "
                     "_slice_template tiling as in C07. (4) whole PythonTemplater.process on every <=3 (thorough 4) piece template x contexts: "
                     "rendered == str.format, also when the same templater object rendered another file first whose context defined "
                     "more names (a name missing from THIS file's context must be an error, not a stale value).",
                note="Known findings F3, F4 (escaped braces) excluded by pattern; F19 (spec with whitespace) fixed. format_spec mini-language "
                     "and conversions on dotted names are outside."),
    "C10": dict(design_ref="§3 C10/C11/C30", technique=SYM,
                text="Bounded model checking of the real patch pipeline (generate_source_patches filter, merge_source_patches, "
                     "_slice_source_file_using_patches, _build_up_fixed_source_string) for ALL source lengths, slice boundaries, "
                     "patch positions and replacement texts within a bounded number of raw slices/patches/variants: no applied edit "
                     "touches a non-literal raw slice unless it is a source edit naming exactly that slice. Plus the real "
                     "templated_slice_to_source_slice over the 17 slice shapes with symbolic lengths and an arbitrary in-bounds "
                     "templated slice: the result is in bounds, ordered and covers the slices the input touches. Whole fix run: for every "
                     "jinja template lead + open tag + body + expression/comment + close tag + tail (whitespace-control variants of every "
                     "tag, 1536 quick / 3072 thorough combinations) all rules but JJ01 leave every tag of the source unchanged and in order.",
                note="Assumes the patch stream contract (start<=stop<=len; source patches name one non-literal slice) and C07 tiling; "
                     "which patches real rules emit is checked only on the listed template family. F33 (first-line indent source fix) fixed. "
                     "Trusted: z3, the proxy layer (validated by replay)."),
    "C11": dict(design_ref="§3 C10/C11/C30", technique=SYM,
                text="Same pipeline harness: the output equals the source outside the applied edit ranges for every source/patch "
                     "configuration in the bound; with nothing applied the output is the source and fix_string reports no change. Encoding: real get_encoding "
                     "with a symbolic file length and offset of the first non-ASCII byte (autodetect reads enough of the file to see it), also "
                     "when the same path was examined before with arbitrary other content. Real files: 5 characters x 4 file encodings x 4 "
                     "configured encodings x comment/string x LF/CRLF through lint_paths(fix, apply_fixes): outside the one removed space the "
                     "bytes written back equal the bytes read (modulo CRLF -> LF).",
                note="Text is opaque (RopeStr): equality means equal for every content of the base texts. Known finding F9: bytes that "
                     "cannot be decoded in the configured encoding come back as escape text (excluded by pattern)."),
    "C24": dict(design_ref="§3 C24", technique=SYM + " (schedule = symbolic permutation enumerated through solver-decided forks)",
                text="Real ParallelRunner.run/_apply, Linter.lint_paths assembly, LintedDir.add, LintingResult.as_records/stats on 3 "
                     "(thorough 4) real SQL files with a pool whose results return in EVERY completion order and with every order of "
                     "the path arguments; every task/result crosses a real pickle round trip (FluffConfig.__getstate__/__setstate__): "
                     "records, per-directory stats, violation count and exit code equal the serial run's, for 3 warnings "
                     "configurations. Templated: 3 jinja files under nested .sqlfluff files with different templater contexts, all path "
                     "orders through the real sequential runner and all completion orders through the parallel runner agree; one of the files "
                     "carries its own rule selection (inline exclude_rules), which the worker route must honour.",
                note="Narrow: OS scheduling, real worker processes and fix-mode writes are outside."),
    "C25": dict(design_ref="§3 C25", technique=SYM + " (choices solver-forked; a REAL temp tree is built per explored path)",
                text="Real paths_from_path/_iter_files_in_path/_check_ignore_specs/_iter_config_files on a 3-level tree with a "
                     "ignore source (.sqlfluffignore, or ignore_paths in a .sqlfluff) present or absent at each of 4 levels (<=2, thorough 3 at "
                     "once) holding one of 6 gitignore patterns, optionally after the same spellings were run in ANOTHER project of the "
                     "same layout in the same process (all function caches emptied at the start of every path): the selected files equal the reference (extension + every ignore file in an ancestor directory inside "
                     "the working directory applies) and are identical for the relative, absolute and '.' spellings.",
                note="pathspec itself is used inside the reference to decide whether a single pattern matches a relative path. "
                     "pyproject.toml, symlinks and exact-file paths are outside. F7 fixed."),
    "C26": dict(design_ref="§3 C26", technique=SYM + " (fault point, fault kind, mode, BOM, suffix solver-forked; real filesystem)",
                text="Real LintedFile._safe_create_replace_file on a real temp directory with os/shutil/tempfile/open rebound to counting "
                     "fault proxies: for a fault at EVERY operation (stat, NamedTemporaryFile, write, flush, fsync, chmod, move, any "
                     "direct open/write) of every kind (OSError, KeyboardInterrupt, half-written buffer then OSError, process death in "
                     "a forked child) the target holds the complete old or complete new content, no temp file remains after a raised "
                     "error, success keeps mode and BOM, a suffix leaves the original untouched. persist_tree writes only when a "
                     "fixable violation exists and the text changed, to stem+suffix+ext even when the stem already ends with the suffix. Every "
                     "route that persists fixes (lint_paths(apply_fixes), deferred LintingResult.persist_changes, CLI fix, CLI fix --check) "
                     "x suffix x 1..2 real files: with a suffix the original is untouched and stem+suffix holds the fixed text.",
                note="Power loss / fsync durability semantics of the kernel are outside."),
    "C27": dict(design_ref="§3 C27", technique=SYM + " (choices solver-forked; REAL config files in a temp tree per explored path)",
                text="Real load_config_up_to_path / load_config_file_as_dict(@cache) / FluffConfig.from_root, make_child_from_path, "
                     "set_value, process_raw_file_for_config with HOME and cwd redirected: for every choice of which of 7 layers "
                     "(appdir, home, cwd, proj, proj/sub, extra config, overrides) sets which of two keys (<=2, thorough 3 layers at "
                     "once) the winner is the highest-precedence layer; an inline directive wins for that file only; mutating one "
                     "file's config never changes a sibling's, a cousin's or the root config. Inline isolation: 7 directive kinds "
                     "(core, indentation, layout, rules:<rule>:<option>, templater) x 6 routes (parse_string, lint_string, simple API, "
                     "lint_paths, child config, copy, one lint_paths run over both files, the same with two worker threads) x 0..2 earlier "
                     "decorated files leave the shared configuration mapping and a later "
                     "undecorated file's violations unchanged. nested_combine over 3 dicts: later wins, "
                     "sections merge, outputs share no mutable object with inputs.",
                note="toml/pyproject files, path-valued settings and plugin defaults are outside."),
    "C28": dict(design_ref="§3 C28", technique=SYM + " (finite shape space enumerated through solver-decided forks)",
                text="Real to_tuple/structural_simplify/as_record on real segment trees of every shape up to depth 2 with duplicate type "
                     "names, with and without positions: the in-order leaf texts of the record equal the tree's leaves (and concatenate "
                     "to the text) and the record's nesting equals the tree's; plus one node with 1..10 children of forked types (more "
                     "children than a record has bookkeeping keys), with and without positions.",
                note="The CLI parse command's human/yaml/json writers are outside."),
    "C29": dict(design_ref="§3 C29", technique="solver-based: z3 Fixedpoint (Datalog) reachability over the live grammar object graph of "
                "every dialect + z3 regex-inclusion query for lexer totality", engine="z3-direct",
                text="All 28 bundled dialects are loaded and expanded; every grammar element reachable from the root (elements, Ref targets, "
                     "exclude/terminators, delimiters, bracket-pair refs) is emitted as Datalog facts and z3 decides whether an unresolved "
                     "reference is reachable (finite, exhaustive). Lexer totality: for each dialect's live whitespace/newline/last-resort "
                     "patterns z3 shows no non-empty string escapes all three. 170 known dangling refs (finding F1) are listed per dialect; "
                     "any other dangling ref is a violation, replayed by dialect.ref(name).",
                note="The graph walker (models/grammar_graph.py) is trusted to enumerate element attributes; regex translation validated "
                     "against `re`."),
    "C30": dict(design_ref="§3 C10/C11/C30", technique=SYM,
                text="Same pipeline harness: the slice buffer tiles the source, every slice is raw text or exactly one distinct edit, "
                     "applied edits are pairwise disjoint, a conflicting edit is absent entirely; for all positions/lengths/texts "
                     "within <=3 patches x <=2 variants (quick) / <=4 patches (thorough). Call site: real Linter.lint_parsed -> "
                     "LintedFile.fix_string with the per-variant patch lists forked (2 root-variant edits, optional alternate-variant edit): "
                     "the fixed text is explained by a set of pairwise-disjoint input edits.",
                note="Patch stream contract as in C10. The legacy un-merged route (LintedFile.source_patches is None) is outside the claim."),
    "C15": dict(design_ref="§3 C15", technique=SYM + " (finite input space enumerated through solver-decided forks)",
                text="Real Rule_CP01._handle_segment/_get_fix (inherited by CP02-CP05) on a real keyword token for EVERY text over "
                     "{a,B,1,_} of length <=3 (thorough 4) x 7 policies x 5 memory states: a produced fix replaces exactly the anchored "
                     "token, keeps its type and lower(fixed) == lower(raw). Token selection: real crawl + _eval of CP01-CP05 on "
                     "file > statement > grandparent > parent > token for 11 token kinds x 7 parent x 4 grandparent types x 2 policies: "
                     "quoted identifiers, string literals, comments and whitespace are never rewritten.",
                note="Known finding CP_SNAKE (the snake policy inserts underscores) excluded by pattern; F26 (comments inside a datatype) "
                     "fixed. Dialect-specific token classes and non-ASCII case maps are outside."),
    "C18": dict(design_ref="§3 C18", technique=SYM + FORK,
                text="Real cli._paths_fix/_stdin_fix/_handle_unparsable, Linter.lint_paths apply gate, LintedDir.add/discard_fixes..., "
                     "api.simple.fix over real LintedFile objects holding every subset of {TMP, PRS, fixable lint, unfixable lint} "
                     "violations x ignore x warning flags x fix_even_unparsable (1 file; 2 files with PRS/fixable): a file with a "
                     "templating/parsing error - suppressed or not - is never written / stdout == stdin / API returns the input unless "
                     "fix_even_unparsable. lint_fix_parsed loop-limit: when every loop up to runaway_limit (1..3) changes the file the "
                     "original tree is returned and every initial violation is unfixable - also when a post-phase rule still has a fix to offer.",
                note="Runner, persist_tree/fix_string and apply_fixes are recording stubs; a counterexample is replayed with `sqlfluff fix` "
                     "on a real file built from the kind/flag vector (LT01, AM04, a parse error, an undefined jinja variable)."),
    "C19": dict(design_ref="§3 C19", technique=SYM + FORK,
                text="Differential over the same LintedFile: exit code and 'modified?' of cli._paths_fix vs _stdin_fix vs api.simple.fix, "
                     "and records/stats of lint_paths vs the stdin/API assembly, for every kind/flag subset. Known disagreements F21, "
                     "F23, F24 (each confirmed with the real CLI by path vs via stdin) are excluded by pattern. Same project, three "
                     "routes: a real project directory per path with forked .sqlfluff settings (disable_noqa, rules, exclude_rules, "
                     "warnings) x inline directive x noqa comment; the real CLI by path, the real CLI via --stdin-filename and the Python "
                     "API report the same violations / produce the same fixed text and exit code.",
                note="Encoding and settings outside the pool are outside. F30 (inline rule directives ignored by lint_string) fixed."),
    "C20": dict(design_ref="§3 C20", technique=SYM,
                text="Real IgnoreMask.ignore_masked_violations / _should_ignore_violation_line_range / generate_warnings_for_unused over "
                     "<=2 directives x <=2 violations (thorough 3x2, 2x3) with UNBOUNDED symbolic line numbers, every action (plain/"
                     "disable/enable), rule set (all/{A}/{B}/{A,B}) and code (A/B/PRS): a violation is hidden iff a plain directive on "
                     "its line covers it or the most recent covering range directive at or before its line is a disable; unused "
                     "warnings exactly for plain/disable directives that hid nothing; with no mask nothing is hidden. Real _parse_noqa on "
                     "every comment made of <=3 tokens, and 'noqa:' + <=4 tokens, from a token alphabet (codes, globs, names, PRS, "
                     "commas, spaces, disable=/enable=, all): action and rule tuple equal an independent reference parser. Directive location: "
                     "real _extract_ignore_from_comment on a real comment segment whose position marker sits on a file with independent "
                     "symbolic newline layouts for source and rendering (K<=2, thorough 3 each): the directive carries the SOURCE line/column.",
                note="Reference models written independently in the harness. Which comments the tree crawl yields is outside."),
    "C21": dict(design_ref="§3 C21", technique=SYM + " (finite configuration space enumerated through solver-decided forks)",
                text="Real RuleSet.get_rulepack/_expand_rule_refs/rule_reference_map over a register of 3 stub rules with forked names, "
                     "groups and aliases (incl. code/name, name/group and group/alias collisions) and <=1 (thorough 2) allow and deny "
                     "selectors (codes, names, groups, aliases, globs, unknown): instantiated codes == (union of matched allow) minus "
                     "(union of matched deny) under precedence code > name > group > alias. Glob selectors: every selector of <=3 "
                     "(thorough 4) tokens from {A,B,0,1,*,?,[AB],.} as rules or as exclude_rules equals fnmatchcase over the reference "
                     "map. Comma-separated selector lists (<=4 tokens incl. separators/blank/newline) split and strip exactly. Independence: lint_fix_parsed(fix=False) hands "
                     "every enabled rule the identical tree and reports the concatenation of their violations for all 8 subsets.",
                note="That a crawl does not mutate the tree is assumed, not checked."),
    "C22": dict(design_ref="§3 C22", technique=SYM + FORK,
                text="lint: exit 1 iff some violation is neither suppressed nor a warning (real LintedDir.add + LintingResult.stats). "
                     "fix by path and via stdin: exit 1 iff an unsuppressed non-warning violation remains unfixable (incl. fixes discarded "
                     "because of a templating/parsing error) or an unsuppressed templating/parsing error blocks fixing; for every "
                     "kind/flag subset x fix_even_unparsable.",
                note="With --FIX-EVEN-UNPARSABLE and a live TMP/PRS error the statement does not determine the code (accepted either way). "
                     "F20 fixed; F21 (stdin) known. Exit 2 for usage/config errors is click's and outside."),
    "C23": dict(design_ref="§3 C23", technique=SYM,
                text="Bounded model checking of the real position kernel (newline scan, bisect table, source_position_dict_from_slice, "
                     "PositionMarker, SQLBaseError/SQLLintError/SQLParseError.to_dict, LintFix.to_dict incl. all edit types and the "
                     "single-fix hoisting) over a source of unbounded length with K symbolic newline positions and arbitrary in-bounds "
                     "anchor slices: line/col lie in the file, equal the reference for the anchor's first source character, and every "
                     "start/end offset agrees with its line/col; also with one character that str.splitlines() treats as a line break "
                     "but is not a newline. Serialised output: real CLI in json / yaml / sarif on a file whose multi-line select target starts "
                     "and ends at forked columns: the three outputs list the same violations at the same start and end positions.",
                note="Assumes anchors carry in-bounds source slices (C01 kernel). That a rule anchors the right segment, and the "
                     "github-annotation / human formats, are outside."),
    "C31": dict(design_ref="§3 C31", technique=SYM,
                text="For texts with exactly K newlines (K<=6 quick, <=12 thorough) of UNBOUNDED length and every offset, the real "
                     "iter_indices_of_newlines + get_line_pos_of_char_pos (source and templated tables) and infer_next_position equal "
                     "the reference (1 + newlines before offset, offset - last newline); also with one non-LF line-break character; and on "
                     "one real-constructed TemplatedFile whose source and rendered texts have independent newline layouts an arbitrary "
                     "earlier lookup (any offset, either text) does not change the next lookup. PositionMarker.source_position / "
                     "templated_position over the same two-layout file report the line/column of the marker's source / rendered offset "
                     "wherever its working position has been moved.",
                note="Text abstracted to length + newline positions (the only observations these functions make)."),
    "C33": dict(design_ref="§3 C33", technique=SYM,
                text="Real deduplicate_in_source_space + source_signature over N<=3 (thorough 4) violations with symbolic line/col, code, "
                     "description, fix text and source fix: output sorted by (line, col), no two equal signatures, every input signature kept. "
                     "Call site: real Linter.lint_parsed on a real ParsedString with or without a root variant, 2 (thorough 3) violations "
                     "placed by fork among templating / per-variant parse / root-variant lint / alternate-variant lint results: the "
                     "LintedFile's violations are sorted and unique. What is shown: the CLI human listing and the API list with "
                     "--warn-unused-ignores (unused noqa before/after a violation, inside a jinja loop, a second unused noqa) are in source "
                     "order without repeats.",
                note="Violation objects are real SQLLintError/SQLParseError with duck-typed rule/segment/fix stubs."),
    "C32": dict(design_ref="§3 C32", technique=SYM + " (operation sequence solver-forked; real files; fresh-subprocess baseline)",
                text="Narrow: every sequence of 2 (thorough 3) operations (lint / parse / render / lint the whole directory in one run) over "
                     "6 real files (plain, jinja blocks, parse error, noqa, inline config, inline rule exclusion) with a shared or fresh Linter: each lint equals the file's fresh-process baseline "
                     "and no input file's bytes or mtime change. allowed_rule_ref_map: references expand identically whether or not it "
                     "was called before on the same map; rule entries are never altered. BlockTracker class state does not change "
                     "file B's segments (see C06).",
                note="'Never opens a file for writing' is a syntactic fact, not a solver question; fix mode is outside."),
    "C34": dict(design_ref="§3 C34", technique=SYM,
                text="load_raw_file_and_config with symbolic file size and byte limit, large_file_check with symbolic length and char "
                     "limit (both unbounded), the root config carrying an independent symbolic limit: skipped iff the FILE's limit != 0 "
                     "and size > that limit whatever any OTHER setting the code consults holds (each an independent symbolic integer), a "
                     "skipped file is never opened/processed. Real "
                     "SequentialRunner/ParallelRunner (main-process and worker-side skip paths) over every oversized subset of 3 files: "
                     "skipped files are counted once and never linted. cli._paths_fix: exit 1 on skip only with large_file_skip_fail.",
                note="os.path.getsize, config and open are stubs; the lint command's inline tail is represented by the same two lines. "
                     "c34.limit_routes runs both limits through the real lint_paths on real files (lint/fix, 1-2 workers); known finding "
                     "F34: a char-limit skip is not counted."),
}

NOT_APPLICABLE = {
    "C12": "needs re-lexing arbitrary fixed text with ~150 regex-module patterns after arbitrary reflow edits; neither side is encodable for a solver",
    "C13": "whole fix loop composed with the whole recursive-descent parser over arbitrary SQL; no bounded kernel implies it",
    "C14": "utils/reflow is ~6k lines of heap-rich tree rewriting with no integer/offset kernel that implies whitespace-only edits",
    "C16": "oracle is SQLite executing the query before/after; no solver model of SQL semantics is within reach",
    "C17": "fixpoint of the whole rule set over arbitrary SQL; not encodable",
}
