"""Debug helper: re-run one unit's harness with every declared variable pinned to a model (python -m lib.debug C02 <unit> '<json>')."""
import importlib, json, sys
import z3
sys.path.insert(0, "/verif")
from symlite.core import Ctx, explore

if __name__ == "__main__":
    prop, unit, model = sys.argv[1], sys.argv[2], json.loads(sys.argv[3])
    mod = importlib.import_module(f"harness.{prop.lower()}")
    u = [x for x in mod.units("quick", 0) + mod.units("thorough", 0) if unit in x.name][0]
    Ctx.pin = model
    h = u.make(frozenset())
    def wrapped(c):
        ok = h(c)
        print("RESULT:", ok if isinstance(ok, bool) else z3.simplify(getattr(ok, "e", ok)))
        return ok
    r = explore(wrapped, timeout_s=60, declared_exceptions=u.declared_exceptions)
    print(r.status, r.cex, r.cex_kind[:2000])
