"""./check <ID> [--tier quick|thorough] [--replay path] [--unit substr] -- single entry point of the machinery."""
from __future__ import annotations

import argparse
import importlib
import json
import multiprocessing as mp
import os
import sys
import time

ROOT = os.path.dirname(os.path.dirname(os.path.abspath(__file__)))
sys.path.insert(0, ROOT)
sys.setrecursionlimit(10000)

from lib import runner  # noqa: E402

_UNITS: list = []
_EXCL: frozenset = frozenset()


def _run_idx(i):
    return runner.run_unit(_UNITS[i], _EXCL, procs=1)


def _scratch():
    """Every temp file/dir of the harnesses (and of their worker processes) lives under one scratch directory that the
    main process removes on exit, so a worker killed mid-path (counterexample found, timeout) leaves nothing behind."""
    import atexit
    import shutil
    import tempfile
    root = tempfile.mkdtemp(prefix="verif_scratch_")
    os.environ["TMPDIR"] = root
    tempfile.tempdir = root
    pid = os.getpid()
    atexit.register(lambda: os.getpid() == pid and shutil.rmtree(root, ignore_errors=True))


def _process_local_tqdm_lock():
    """sqlfluff's fix loop wraps its rule loop in tqdm, and tqdm's default class lock contains a multiprocessing RLock (a
    cross-process semaphore). Created in this process before the worker pools are forked, it would be shared by every
    worker, and a worker killed while holding it (pool.terminate after a counterexample or a timeout) would block all later
    workers forever. A plain thread lock is per process after fork."""
    try:
        import threading
        from tqdm import tqdm
        tqdm.set_lock(threading.RLock())
    except Exception:
        pass


def main(argv=None) -> int:
    ap = argparse.ArgumentParser()
    ap.add_argument("prop")
    ap.add_argument("--tier", default=os.environ.get("VERIF_TIER", "quick"), choices=["quick", "thorough"])
    ap.add_argument("--replay", default=None)
    ap.add_argument("--unit", default=None, help="only run units whose name contains this (debugging; no evidence)")
    ap.add_argument("--procs", type=int, default=int(os.environ.get("VERIF_PROCS", "16")))
    a = ap.parse_args(argv)
    prop = a.prop.upper()
    try:
        seed = int(os.environ.get("VERIF_SEED", "0"))
    except ValueError:
        seed = 0
    t0 = time.time()
    _scratch()
    _process_local_tqdm_lock()
    mod = importlib.import_module(f"harness.{prop.lower()}")
    units = mod.units(a.tier, seed)

    if a.replay:
        body = json.load(open(a.replay))
        for u in units:
            if u.name == body["unit"] and u.replay is not None:
                if u.replay == "concrete":
                    from symlite.core import concrete_replay
                    desc = concrete_replay(u.make(frozenset()), body["input"], u.declared_exceptions)
                else:
                    desc = u.replay(body["input"])
                if desc:
                    print(f"[{prop}] replay reproduces: {desc}")
                    print(f"VIOLATION property={prop} replay={a.replay}")
                    return 1
                print(f"[{prop}] replay does not reproduce (property holds on this input)")
                return 0
        print(f"[{prop}] no unit named {body['unit']} with a replay function", file=sys.stderr)
        return 2

    # known findings: replay each recorded input on the real code; still failing => KNOWN-FINDING line and its
    # pattern is excluded from the symbolic search (so any *other* violation still surfaces).
    known_lines, active = [], set()
    for k in runner.load_known(prop):
        if k.get("status") != "known":
            continue
        fn = getattr(mod, "KNOWN", {}).get(k["id"])
        desc = None
        if fn is not None:
            try:
                desc = fn(k)
            except Exception as e:  # a crashing replay of a known finding counts as "still fails" only if declared
                desc = f"replay raised {type(e).__name__}: {e}" if k.get("raises_ok") else None
        if desc:
            known_lines.append(f"KNOWN-FINDING: property={prop} {k['id']} {k['what']} [{desc}]")
            for p in k.get("patterns", [k["id"]]):
                active.add(p)
    excluded = frozenset(active)

    if a.unit:
        units = [u for u in units if a.unit in u.name]
    global _UNITS, _EXCL
    par = [u for u in units if not u.sharded]
    seq = [u for u in units if u.sharded]
    outcomes = {}
    # NOTE: harness factories rebind names inside sqlfluff modules; they must never run in THIS process, from which the
    # workers of later units are forked (a lone non-sharded unit used to run here and leaked its stubs into them).
    if par and a.procs > 1:
        _UNITS, _EXCL = par, excluded
        with mp.get_context("fork").Pool(min(a.procs, len(par))) as pool:
            res = pool.map_async(_run_idx, range(len(par)), chunksize=1)
            try:
                outs = res.get(timeout=max(u.timeout_s for u in par) + 120)
            except mp.TimeoutError:
                outs = None   # a worker was lost (multiprocessing.Pool never resubmits its task): fall back to this process
        if outs is None:
            outs = []
            for i, u in enumerate(par):   # one fresh child per unit, still never in this process
                with mp.get_context("fork").Pool(1) as p1:
                    try:
                        outs.append(p1.apply_async(_run_idx, (i,)).get(timeout=u.timeout_s + 120))
                    except mp.TimeoutError:
                        outs.append(runner.Outcome(u.name, "ERROR", error="unit lost twice (worker died or blocked)"))
        for u, o in zip(par, outs):
            outcomes[u.name] = o
    else:
        for u in par:
            outcomes[u.name] = runner.run_unit(u, excluded, procs=1)
    for u in seq:
        outcomes[u.name] = runner.run_unit(u, excluded, procs=a.procs)
    ordered = [outcomes[u.name] for u in units]
    if a.unit:
        for o in ordered:
            print(o.unit, o.status, o.stats, o.witnesses, o.cex, o.cex_kind[:1500], o.replayed, o.error, round(o.wall_s, 1))
        return 0
    return runner.finish(prop, a.tier, seed, units, ordered, known_lines, t0,
                         level=getattr(mod, "LEVEL", "model_checking"),
                         exhaustive=getattr(mod, "EXHAUSTIVE", False))


if __name__ == "__main__":
    sys.exit(main())
