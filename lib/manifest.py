"""Regenerates MANIFEST.json from the CLAIMS / NOT_APPLICABLE tables below (run: .venv/bin/python -m lib.manifest)."""
import json
import os

ROOT = os.path.dirname(os.path.dirname(os.path.abspath(__file__)))

SYM = "bounded symbolic execution of the real functions (symlite proxies over z3, per-path VCs)"
CLAIMS = {
    # id: (design_ref, technique, text, note)
}
NOT_APPLICABLE = {}


def load_tables():
    from lib import claims
    return claims.CLAIMS, claims.NOT_APPLICABLE


def main():
    claims, na = load_tables()
    props = [json.loads(l)["id"] for l in open(os.path.join(ROOT, "properties.jsonl"))]
    checks = []
    for pid in props:
        if pid not in claims:
            assert pid in na, f"{pid} neither claimed nor not_applicable"
            continue
        c = claims[pid]
        checks.append({
            "property_id": pid,
            "quick_cmd": f"./check {pid} --tier quick",
            "thorough_cmd": f"./check {pid} --tier thorough",
            "evidence_file": f"evidence/{pid}.json",
            "replay_cmd_template": f"./check {pid} --replay {{path}}",
            "engine": c.get("engine", "symlite"),
            "level_claimed": {"category": c.get("level", "model_checking"), "text": c["text"],
                              "design_ref": c["design_ref"]},
            "level_note": c["note"],
            "technique": c["technique"],
        })
    m = {
        "version": 1,
        "setup_cmd": "./setup.sh",
        "hooks": {
            "guard": "SQLFLUFF_VERIF",
            "enable": "none needed: harnesses rebind names in the target modules' namespaces at check time "
                      "(e.g. patch.int = sym_int); no source hook is committed to /repo. ./check exports "
                      "SQLFLUFF_VERIF=1 but nothing in /repo reads it.",
            "baseline_off_cmd": "cd /repo && /venv/bin/python -m pytest -ra -q -p no:cacheprovider --timeout=900 "
                                "--continue-on-collection-errors -n 16",
            "source_commits": [],
            "add_only": True,
        },
        "engines": [
            {"name": "symlite", "path": "symlite/", "serves_properties": sorted(p for p, c in claims.items() if c.get("engine", "symlite") == "symlite"),
             "kind_free_text": "own symbolic-proxy engine: SymInt/SymBool/RopeStr/... over z3 terms pushed through the natively "
                               "executing real sqlfluff functions; every bool() on a symbolic condition is a solver-checked fork; "
                               "DFS by re-execution; per-path VC path&&!assert discharged by z3; counterexamples replayed on the real code"},
            {"name": "z3-direct", "path": "models/", "serves_properties": sorted(p for p, c in claims.items() if c.get("engine") == "z3-direct"),
             "kind_free_text": "direct z3 queries (regex->Re translation of the repo's own patterns, Datalog/fixedpoint over the live "
                               "dialect grammar graphs) regenerated from /repo on every run"},
        ],
        "checks": checks,
        "not_applicable": [{"property_id": p, "reason": r} for p, r in sorted(na.items()) if p not in claims],
        "notes": "All checks: exit 0 held / 1 VIOLATION (after replay on the real code) / 2 engine could not encode or vacuous "
                 "harness / 3 counterexample did not replay (harness bug). Known findings: known_findings.json. /repo carries 17 "
                 "unguarded `fix:` commits on top of the pinned snapshot (listed as status=fixed in known_findings.json); no hook or "
                 "instrumentation commit was needed (source_commits is empty); the pinned suite passes with them (10880 passed, the "
                 "10 baseline always-fail tests unchanged).",
    }
    json.dump(m, open(os.path.join(ROOT, "MANIFEST.json"), "w"), indent=1)
    print("checks:", len(checks), "not_applicable:", len(m["not_applicable"]))


if __name__ == "__main__":
    main()
