#!/bin/sh
# usage: lib/mut.sh <file-rel-to-repo> <sed-expr> <check args...>   -- apply a one-line mutant, run a check, revert
f="$1"; e="$2"; shift 2
cd /repo && sed -i "$e" "$f" && git diff --stat | tail -1
if git diff --quiet; then echo "MUTANT DID NOT APPLY"; exit 9; fi
cd /verif && ./check "$@" 2>&1 | grep -E "VIOLATION|KNOWN|HARNESS|CEX|ERROR|VACUOUS|INCOMPLETE|Traceback" | cut -c1-400 | head -12; echo "exit=$?"
git -C /repo checkout -- .
