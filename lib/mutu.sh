#!/bin/sh
# usage: lib/mutu.sh <file> <sed-expr> <ID> <unit-substr>  -- like mut.sh but runs only matching units (debug output)
f="$1"; e="$2"; id="$3"; u="$4"
cd /repo && sed -i "$e" "$f" && git diff --stat | tail -1
if git diff --quiet; then echo "MUTANT DID NOT APPLY"; exit 9; fi
cd /verif && ./check "$id" --unit "$u" 2>&1 | cut -c1-700
git -C /repo checkout -- .
