#!/bin/sh
# usage: lib/runall.sh quick|thorough [ids...]  -- run every registered check, print exit code and wall time
tier="$1"; shift
cd /verif
ids="$@"
[ -z "$ids" ] && ids=$(.venv/bin/python -c "import json;print(' '.join(c['property_id'] for c in json.load(open('MANIFEST.json'))['checks']))")
for p in $ids; do
  s=$(date +%s)
  ./check $p --tier $tier > /tmp/runall_$p.log 2>&1; rc=$?
  e=$(date +%s)
  echo "$p exit=$rc wall=$((e-s))s $(grep -c KNOWN-FINDING /tmp/runall_$p.log) known $(grep -E 'INCOMPLETE|VACUOUS|ERROR|VIOLATION' /tmp/runall_$p.log | head -2 | cut -c1-160)"
done
