"""Check runner: units -> symbolic exploration -> replay on the real code -> known findings -> evidence."""
from __future__ import annotations

import hashlib
import json
import os
import sys
import time
import traceback
from dataclasses import dataclass, field
from typing import Any, Callable, Optional

ROOT = os.path.dirname(os.path.dirname(os.path.abspath(__file__)))

from symlite.core import Result, Stats, explore, run_sharded  # noqa: E402


@dataclass
class Unit:
    """One harness instance: a bounded symbolic check of named real functions.

    kind "symlite": `make(excluded)` returns harness(ctx) run under symlite.explore (excluded = names of
    known-finding patterns whose negation must be assumed).  kind "custom": `run(excluded)` returns an Outcome
    (direct z3 queries over encodings regenerated from the live objects / source).
    """

    name: str
    functions: list
    bounds: dict
    make: Optional[Callable[[frozenset], Callable]] = None
    run: Optional[Callable[[frozenset], "Outcome"]] = None
    replay: Optional[Callable[[dict], Optional[str]]] = None  # model -> description iff it reproduces on real code
    stubs: list = field(default_factory=list)
    assumptions: list = field(default_factory=list)
    outside: list = field(default_factory=list)
    witnesses_required: list = field(default_factory=list)
    declared_exceptions: tuple = ()
    sharded: bool = True
    timeout_s: float = 300.0
    max_paths: int = 10**9
    query_timeout_ms: int = 20000
    want_shards: int = 64


@dataclass
class Outcome:
    unit: str
    status: str  # PROVED | CEX | INCOMPLETE | ERROR | VACUOUS
    stats: Stats = field(default_factory=Stats)
    cex: Optional[dict] = None
    cex_kind: str = ""
    replayed: Optional[str] = None
    witnesses: list = field(default_factory=list)
    samples: list = field(default_factory=list)
    wall_s: float = 0.0
    error: str = ""
    extra: dict = field(default_factory=dict)


def run_unit(u: Unit, excluded: frozenset, procs: int = 16) -> Outcome:
    t = time.time()
    if u.run is not None:
        try:
            out = u.run(excluded)
        except Exception:
            out = Outcome(u.name, "ERROR", error=traceback.format_exc(limit=6))
        out.unit = u.name
        out.wall_s = time.time() - t
    else:
        kw = dict(timeout_s=u.timeout_s, declared_exceptions=u.declared_exceptions, max_paths=u.max_paths,
                  query_timeout_ms=u.query_timeout_ms)
        try:
            mk = lambda: u.make(excluded)  # noqa: E731
            r: Result = run_sharded(mk, procs=procs, want=u.want_shards, **kw) if u.sharded else explore(mk(), **kw)
        except Exception:
            return Outcome(u.name, "ERROR", error=traceback.format_exc(limit=8), wall_s=time.time() - t)
        out = Outcome(u.name, r.status, r.stats, r.cex, r.cex_kind, None, sorted(r.witnesses), r.samples,
                      time.time() - t, r.error)
        if r.status == "INCOMPLETE":
            out.error = f"unknown={r.stats.unknown} remaining_prefixes={len(r.remaining)}"
    missing = [w for w in u.witnesses_required if w not in out.witnesses]
    if out.status == "PROVED" and missing:
        out.status = "VACUOUS"
        out.error = f"witnesses not reached: {missing}"
    if out.status == "CEX" and out.replayed is None:
        if u.replay == "concrete":
            # generic replay: the same harness re-run natively with plain Python values from the model (no proxies)
            from symlite.core import concrete_replay
            try:
                d = concrete_replay(u.make(excluded), out.cex, u.declared_exceptions)
                out.replayed = (d + f" [input {out.cex}]") if d else None
            except Exception:
                out.error = "replay crashed: " + traceback.format_exc(limit=6)
        elif u.replay is not None:
            try:
                out.replayed = u.replay(out.cex)
            except Exception as ex:
                # the symbolic run ended in an undeclared exception and the concrete replay of the real code raises
                # the same exception type: that is a reproduction; anything else is a harness problem (exit 3)
                if out.cex_kind.startswith(f"exception {type(ex).__name__}:"):
                    out.replayed = f"real code raises {type(ex).__name__}: {ex}"
                else:
                    out.error = "replay crashed: " + traceback.format_exc(limit=6)
        else:
            out.error = "no replay function"
    return out


def load_known(prop: str) -> list:
    p = os.path.join(ROOT, "known_findings.json")
    if not os.path.exists(p):
        return []
    return [k for k in json.load(open(p)) if prop in k["property"].split(",")]


def write_replay(prop: str, unit: str, cex: dict, what: str) -> str:
    d = os.path.join(ROOT, "replays", prop)
    os.makedirs(d, exist_ok=True)
    body = {"property": prop, "unit": unit, "input": cex, "what": what}
    h = hashlib.sha1(json.dumps(body, sort_keys=True, default=str).encode()).hexdigest()[:12]
    path = os.path.join(d, f"{h}.json")
    json.dump(body, open(path, "w"), indent=1, default=str)
    return path


def finish(prop: str, tier: str, seed: int, units: list, outcomes: list, known_lines: list, t0: float,
           level: str = "model_checking", exhaustive: bool = False) -> int:
    total = Stats()
    for o in outcomes:
        total.add(o.stats)
    violations = [o for o in outcomes if o.status == "CEX" and o.replayed]
    unreplayed = [o for o in outcomes if o.status == "CEX" and not o.replayed]
    errors = [o for o in outcomes if o.status in ("ERROR", "VACUOUS")]
    incomplete = [o for o in outcomes if o.status == "INCOMPLETE"]
    samples = [{"unit": o.unit, **s} for o in outcomes for s in o.samples[:1]][:10]
    if not samples:
        samples = [{"unit": o.unit, "status": o.status} for o in outcomes[:3]]
    ev = {
        "property_id": prop, "tier": tier, "seed": seed, "level": level,
        "coverage": {
            "evaluations": max(1, total.paths + total.aborted),
            "distinct_nontrivial": total.nontrivial,
            "rule": "one evaluation = one symbolic path of the real functions (DFS over solver-decided forks) or one "
                    "direct solver query over an encoding regenerated from the live objects; non-trivial = a path "
                    "with at least one solver-decided decision (or a query whose formula mentions at least one "
                    "symbolic variable); each path's VC (path && !assertion) is discharged by z3; paths are distinct "
                    "by construction (DFS never revisits a decision prefix)",
            "samples": samples,
            "functions_encoded": sorted({f for u in units for f in u.functions}),
            "bounds": {u.name: u.bounds for u in units},
            "outside_bounds": sorted({x for u in units for x in u.outside}),
            "queries": total.queries, "solver_s": round(total.solver_s, 2),
            "unknown_queries": total.unknown,
            "complete": not incomplete and not errors,
            "units": [{"unit": o.unit, "status": o.status, "paths": o.stats.paths, "aborted": o.stats.aborted,
                       "queries": o.stats.queries, "solver_s": round(o.stats.solver_s, 2),
                       "wall_s": round(o.wall_s, 1), "witnesses": o.witnesses,
                       **({"note": o.error} if o.error else {}), **o.extra} for o in outcomes],
            "stubs": sorted({s for u in units for s in u.stubs}),
            "known_findings_reproduced": known_lines,
            "exhaustive": exhaustive,
        },
        "assumptions": sorted({a for u in units for a in u.assumptions}),
        "wall_s": round(time.time() - t0, 1),
        "violations": len(violations),
    }
    evdir = os.environ.get("VERIF_EVIDENCE_DIR") or os.path.join(ROOT, "evidence")   # seeded-change runs write elsewhere
    os.makedirs(evdir, exist_ok=True)
    tmp = os.path.join(evdir, f".{prop}.json.tmp")
    json.dump(ev, open(tmp, "w"), indent=1, default=str)
    os.replace(tmp, os.path.join(evdir, f"{prop}.json"))
    for line in known_lines:
        print(line)
    for o in outcomes:
        print(f"[{prop}] {o.unit}: {o.status} paths={o.stats.paths} queries={o.stats.queries} "
              f"wall={o.wall_s:.1f}s {o.error[:300]}")
    sys.stdout.flush()
    if violations:
        for o in violations:
            path = write_replay(prop, o.unit, o.cex, o.replayed)
            print(f"[{prop}] {o.unit}: counterexample {str(o.cex)[:600]} -> {str(o.replayed)[:900]}")
            print(f"VIOLATION property={prop} replay={path}")
        return 1
    if unreplayed:
        for o in unreplayed:
            print(f"[{prop}] HARNESS-ERROR {o.unit}: counterexample did not replay on the real code: "
                  f"{o.cex} kind={o.cex_kind[:600]} {o.error[:300]}")
        return 3
    if errors:
        return 2
    return 0
