"""Evaluate one independently written breaking change against the checks.

usage: python -m lib.seed_eval <seed_id> <property> <worktree> <outdir> [--checks C01,C04] [--tier quick] [--tests "test/core ..."]

1. in the scratch worktree: demo.py must FAIL with the patch and PASS without it (PYTHONPATH=<worktree>/src)
2. (optional) run the given test directories in the worktree with the patch applied
3. apply the patch to /repo (git apply), run the listed checks, undo it (git checkout -- .)
4. store patch.diff, demo.py, notes.md, meta.json under /verif/seeded/<seed_id>/
"""
from __future__ import annotations

import argparse
import json
import os
import shutil
import subprocess
import sys
import time

ROOT = os.path.dirname(os.path.dirname(os.path.abspath(__file__)))


def sh(cmd, cwd=None, env=None, timeout=3600):
    p = subprocess.run(cmd, shell=True, cwd=cwd, env=env, capture_output=True, text=True, timeout=timeout)
    return p.returncode, (p.stdout + p.stderr)


def main():
    ap = argparse.ArgumentParser()
    ap.add_argument("seed_id")
    ap.add_argument("prop")
    ap.add_argument("worktree")
    ap.add_argument("outdir")
    ap.add_argument("--checks", default=None)
    ap.add_argument("--tier", default="quick")
    ap.add_argument("--tests", default="")
    a = ap.parse_args()
    patch = os.path.join(a.outdir, "patch.diff")
    demo = os.path.join(a.outdir, "demo.py")
    env = dict(os.environ, PYTHONPATH=os.path.join(a.worktree, "src"), PYTHONDONTWRITEBYTECODE="1")
    meta = {"seed_id": a.seed_id, "property": a.prop, "ran": []}
    # 1. demo with / without the patch, in the scratch worktree
    sh("git checkout -- . && git clean -fdq src", cwd=a.worktree)
    rc0, out0 = sh(f"/venv/bin/python {demo}", cwd=a.worktree, env=env, timeout=900)
    rc_apply, out_apply = sh(f"git apply {patch}", cwd=a.worktree)
    rc1, out1 = sh(f"/venv/bin/python {demo}", cwd=a.worktree, env=env, timeout=900)
    meta["demo_without_patch_exit"] = rc0
    meta["demo_with_patch_exit"] = rc1
    meta["demo_with_patch_output"] = out1[-600:]
    meta["patch_applies"] = rc_apply == 0
    meta["ran"].append(f"cd {a.worktree} && PYTHONPATH=src /venv/bin/python demo.py  (without patch: exit {rc0}; with patch: exit {rc1})")
    # 2. tests in the worktree with the patch
    if a.tests:
        t = time.time()
        rct, outt = sh(f"/venv/bin/python -m pytest -q -p no:cacheprovider -n 6 {a.tests} 2>&1 | tail -4", cwd=a.worktree, env=env, timeout=3000)
        meta["tests_cmd"] = f"pytest -q -n 6 {a.tests}"
        meta["tests_tail"] = outt[-500:]
        meta["ran"].append(f"cd {a.worktree} && PYTHONPATH=src /venv/bin/python -m pytest -q -n 6 {a.tests}  -> {outt.strip().splitlines()[-1] if outt.strip() else ''} ({time.time() - t:.0f}s)")
    sh("git checkout -- . && git clean -fdq src", cwd=a.worktree)
    # 3. the checks, against /repo with the patch applied
    rc_repo, out_repo = sh(f"git -C /repo apply --check {patch}")
    meta["applies_to_repo"] = rc_repo == 0
    results = {}
    if rc_repo == 0:
        # evidence written while /repo is patched must not replace the evidence of the real tree
        ev, bak = os.path.join(ROOT, "evidence"), os.path.join(ROOT, ".evidence_backup")
        shutil.rmtree(bak, ignore_errors=True)
        shutil.copytree(ev, bak)
        sh(f"git -C /repo apply {patch}")
        try:
            for chk in (a.checks.split(",") if a.checks else [a.prop]):
                t = time.time()
                rc, out = sh(f"./check {chk} --tier {a.tier}", cwd=ROOT, timeout=7200)
                vio = [l[:400] for l in out.splitlines() if "VIOLATION" in l or "counterexample" in l][:4]
                results[chk] = {"exit": rc, "wall_s": round(time.time() - t), "lines": vio}
                meta["ran"].append(f"git -C /repo apply patch.diff && ./check {chk} --tier {a.tier}  -> exit {rc}")
        finally:
            sh("git -C /repo checkout -- . && git -C /repo clean -fdq src")
            shutil.rmtree(ev, ignore_errors=True)
            shutil.move(bak, ev)
    meta["checks"] = results
    meta["caught_by"] = [k for k, v in results.items() if v["exit"] == 1]
    d = os.path.join(ROOT, "seeded", a.seed_id)
    os.makedirs(d, exist_ok=True)
    for f in ("patch.diff", "demo.py", "notes.md"):
        if os.path.exists(os.path.join(a.outdir, f)):
            shutil.copy(os.path.join(a.outdir, f), os.path.join(d, f))
    old = {}
    if os.path.exists(os.path.join(d, "meta.json")):
        old = json.load(open(os.path.join(d, "meta.json")))
    old.update(meta)
    json.dump(old, open(os.path.join(d, "meta.json"), "w"), indent=1)
    print(json.dumps({k: meta[k] for k in ("seed_id", "demo_without_patch_exit", "demo_with_patch_exit", "applies_to_repo", "caught_by")}),
          {k: (v["exit"], v["lines"][:1]) for k, v in results.items()})
    git_dirty = sh("git -C /repo status --short")[1].strip()
    if git_dirty:
        print("WARNING: /repo dirty after evaluation:", git_dirty)


if __name__ == "__main__":
    main()
