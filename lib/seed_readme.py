"""Regenerate seeded/README.md from the meta.json files."""
import glob, json, os
ROOT = os.path.dirname(os.path.dirname(os.path.abspath(__file__)))
rows = []
for m in sorted(glob.glob(os.path.join(ROOT, "seeded", "*", "meta.json"))):
    d = json.load(open(m))
    rows.append(d)
out = ["# Seeded breaking changes (written by independent sub-agents from the property text only)\n",
       "Each directory holds `patch.diff` (apply with `git -C /repo apply`), `demo.py` (exits 1 with the change, 0 without; run with "
       "`PYTHONPATH=<tree>/src /venv/bin/python demo.py`), the author's `notes.md` and `meta.json` (what was run to confirm it and which "
       "checks catch it).\n",
       "| seed | property | needs, in order to manifest | demo (without / with patch) | caught by | note |", "|---|---|---|---|---|---|"]
for d in rows:
    out.append(f"| {d['seed_id']} | {d['property']} | {d.get('needs', '')} | exit {d.get('demo_without_patch_exit')} / exit {d.get('demo_with_patch_exit')} | "
               f"{', '.join(d.get('caught_by', [])) or '**missed**'} | {d.get('note', '')} |")
open(os.path.join(ROOT, "seeded", "README.md"), "w").write("\n".join(out) + "\n")
print(len(rows), "seeds")
