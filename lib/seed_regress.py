"""Re-run the catching checks against every kept seed (final machinery vs. every recorded breaking change).

usage: python -m lib.seed_regress [seed_id ...]

A scratch git worktree of /repo (outside /repo and /verif, removed at the end) receives each patch in turn; the quick
command of every check listed in meta.caught_by runs with PYTHONPATH pointing at that tree (so /repo itself is never
touched and can be in use) and with its evidence redirected to a scratch directory. {check: exit code} is recorded under
meta["regression"]. Prints one line per seed; exits 1 if a seed is no longer caught.
"""
from __future__ import annotations

import glob
import json
import os
import shutil
import subprocess
import sys
import time

ROOT = os.path.dirname(os.path.dirname(os.path.abspath(__file__)))


def sh(cmd, cwd=None, timeout=7200):
    p = subprocess.run(cmd, shell=True, cwd=cwd, capture_output=True, text=True, timeout=timeout)
    return p.returncode, p.stdout + p.stderr


TREE = "/tmp/verif_regress_tree"


def main():
    want = set(sys.argv[1:])
    bad = 0
    sh(f"git -C /repo worktree remove --force {TREE}")
    if sh(f"git -C /repo worktree add --detach {TREE} HEAD")[0] != 0:
        print("ABORT: cannot create the scratch worktree")
        return 2
    env_prefix = f"PYTHONPATH={TREE}/src VERIF_EVIDENCE_DIR=/tmp/verif_regress_evidence "
    try:
        return _run(want, env_prefix)
    finally:
        sh(f"git -C /repo worktree remove --force {TREE}")
        shutil.rmtree("/tmp/verif_regress_evidence", ignore_errors=True)


def _run(want, env_prefix):
    bad = 0
    for m in sorted(glob.glob(os.path.join(ROOT, "seeded", "*", "meta.json"))):
        d = json.load(open(m))
        sid = d["seed_id"]
        if want and sid not in want:
            continue
        patch = os.path.join(os.path.dirname(m), "patch.diff")
        checks = d.get("caught_by") or [d["property"]]
        if sh(f"git -C {TREE} apply --check {patch}")[0] != 0:
            print(f"{sid}: patch does not apply")
            bad += 1
            continue
        res = {}
        sh(f"git -C {TREE} apply {patch}")
        try:
            for chk in checks:
                t = time.time()
                rc, out = sh(f"{env_prefix}./check {chk} --tier quick", cwd=ROOT)
                res[chk] = {"exit": rc, "wall_s": round(time.time() - t)}
                if rc != 1:   # keep the tail of an unexpected run, and try once more (flakiness must be visible, not hidden)
                    res[chk]["first_attempt_tail"] = [l[:300] for l in out.splitlines() if "INCOMPLETE" in l or "ERROR" in l or "VACUOUS" in l][:5]
                    rc2, out2 = sh(f"{env_prefix}./check {chk} --tier quick", cwd=ROOT)
                    res[chk]["second_attempt_exit"] = rc2
                    if rc2 == 1:
                        res[chk]["exit"] = 1
        finally:
            sh(f"git -C {TREE} checkout -- . && git -C {TREE} clean -fdq src")
        d["regression"] = res
        json.dump(d, open(m, "w"), indent=1)
        ok = any(v["exit"] == 1 for v in res.values())
        print(f"{sid}: {'caught' if ok else 'NOT CAUGHT'} {res}", flush=True)
        bad += 0 if ok else 1
    return 1 if bad else 0


if __name__ == "__main__":
    sys.exit(main())
