import json, sys, glob
import jsonschema
jsonschema.validate(json.load(open('/verif/MANIFEST.json')), json.load(open('/root/.vp/MANIFEST.schema.json')))
es = json.load(open('/root/.vp/EVIDENCE.schema.json'))
for p in sorted(glob.glob('/verif/evidence/*.json')):
    jsonschema.validate(json.load(open(p)), es)
print("manifest + %d evidence files valid" % len(glob.glob('/verif/evidence/*.json')))
