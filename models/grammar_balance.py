"""Indent-balance relation over a dialect's grammar graph, decided by z3's Datalog engine.

BalA(node, n, m): some complete match of `node` inserts metas (anywhere in the returned MatchResult tree) with net sum n
and minimum running prefix m.  BalW(node, n, m): the same, counting only metas that sit inside a *classed* child of the
result (what survives Bracketed.match, which drops the loose inserts of its content).  Values saturate at +-K.
The rules mirror Sequence.match / Bracketed.match / AnyNumberOf.match / Delimited.match for complete matches; each rule
is a lemma checked on the real match() by the symbolic harnesses in harness/c03.py.
"""
from __future__ import annotations

import time

import z3

from models.grammar_graph import Graph, is_meta

K = 3
VB = 3   # value bits: v + K in 0..2K
NB = 16  # node bits
PB = 8   # position bits


def enc(v: int) -> int:
    return max(-K, min(K, v)) + K


def dec(x: int) -> int:
    return x - K


def conditional_flags(g: Graph) -> list:
    flags = set()
    for n in g.nodes:
        if n.kind == "conditional":
            flags |= set(n.obj._config_rules)
    return sorted(flags)


def meta_value(node, assignment) -> int:
    x = node.obj
    if node.kind == "conditional":
        on = all(assignment.get(k, False) == v for k, v in x._config_rules.items())
        return x._meta.indent_val if on else 0
    return x.indent_val


class BalanceModel:
    def __init__(self, g: Graph, assignment: dict):
        self.g, self.assignment = g, assignment
        fp = z3.Fixedpoint()
        fp.set(engine="datalog")
        self.fp = fp
        N, V, P = z3.BitVecSort(NB), z3.BitVecSort(VB), z3.BitVecSort(PB)
        B = z3.BoolSort()
        R = {}

        def rel(name, *sorts):
            f = z3.Function(name, *sorts, B)
            fp.register_relation(f)
            R[name] = f
            return f
        balA, balW = rel("BalA", N, V, V), rel("BalW", N, V, V)
        comb = rel("Comb", V, V, V, V, V, V)
        prefA, prefW = rel("PrefA", N, P, V, V), rel("PrefW", N, P, V, V)
        elem, opt, metael = rel("Elem", N, P, N), rel("Opt", N, P), rel("MetaEl", N, P)
        succ, seqlen = rel("Succ", P, P), rel("Len", N, P)
        isseq, isbr = rel("IsSeq", N), rel("IsBr", N)
        persists = rel("Persists", N)
        anyel, rep, many, min0 = rel("AnyEl", N, N), rel("Rep", N, V, V), rel("Many", N), rel("Min0", N)
        alias = rel("Alias", N, N)       # node -> target, A and W both follow
        wraps = rel("Wraps", N, N)       # segment class -> grammar: W := A of grammar
        brin = rel("BrIn", N, V, V)
        self.R = R
        x, c, t = z3.Consts("x c t", N)
        p, q = z3.Consts("p q", P)
        n1, m1, n2, m2, n, m, n3, m3 = z3.Consts("n1 m1 n2 m2 n m n3 m3", V)
        fp.declare_var(x, c, t, p, q, n1, m1, n2, m2, n, m, n3, m3)
        nv = lambda i: z3.BitVecVal(i, NB)  # noqa: E731
        vv = lambda i: z3.BitVecVal(enc(i), VB)  # noqa: E731
        pv = lambda i: z3.BitVecVal(i, PB)  # noqa: E731
        zero = z3.BitVecVal(enc(0), VB)
        # Comb table: sequential composition of (net, minprefix)
        for a1 in range(-K, K + 1):
            for b1 in range(-K, K + 1):
                for a2 in range(-K, K + 1):
                    for b2 in range(-K, K + 1):
                        fp.fact(comb(vv(a1), vv(b1), vv(a2), vv(b2), vv(a1 + a2), vv(min(b1, a1 + b2))))
        maxlen = max([len(nd.elements) for nd in g.nodes] + [1])
        assert maxlen < 2 ** PB - 1
        for i in range(maxlen + 1):
            fp.fact(succ(pv(i), pv(i + 1)))
        # ---- rules
        for pref, bal, skip_meta in ((prefA, balA, False), (prefW, balW, True)):
            fp.rule(pref(x, pv(0), zero, zero), [isseq(x)])
            fp.rule(pref(x, q, n, m), [pref(x, p, n1, m1), elem(x, p, c), bal(c, n2, m2), comb(n1, m1, n2, m2, n, m), succ(p, q)])
            fp.rule(pref(x, q, n, m), [pref(x, p, n, m), opt(x, p), succ(p, q)])
            if skip_meta:
                fp.rule(pref(x, q, n, m), [pref(x, p, n, m), metael(x, p), succ(p, q)])
        # plain sequences
        fp.rule(balA(x, n, m), [isseq(x), z3.Not(isbr(x)), seqlen(x, p), prefA(x, p, n, m)])
        fp.rule(balW(x, n, m), [isseq(x), z3.Not(isbr(x)), seqlen(x, p), prefW(x, p, n, m)])
        # bracketed: content = W-prefix over the elements (loose metas dropped), wrapped in +1 ... -1
        fp.rule(brin(x, n, m), [isbr(x), seqlen(x, p), prefW(x, p, n1, m1), comb(vv(1), vv(0), n1, m1, n, m)])
        fp.rule(balA(x, n, m), [brin(x, n1, m1), comb(n1, m1, vv(-1), vv(-1), n, m)])
        fp.rule(balW(x, n, m), [isbr(x), persists(x), balA(x, n, m)])
        fp.rule(balW(x, n, m), [isbr(x), z3.Not(persists(x)), seqlen(x, p), prefW(x, p, n, m)])
        # repetition grammars
        for bal, r in ((balA, rel("RepA", N, V, V)), (balW, rel("RepW", N, V, V))):
            fp.rule(r(x, n, m), [anyel(x, c), bal(c, n, m)])
            fp.rule(r(x, n, m), [many(x), r(x, n1, m1), anyel(x, c), bal(c, n2, m2), comb(n1, m1, n2, m2, n, m)])
            fp.rule(bal(x, n, m), [r(x, n, m)])
            fp.rule(bal(x, zero, zero), [min0(x)])
            fp.rule(bal(x, n, m), [alias(x, t), bal(t, n, m)])
        fp.rule(balW(x, n, m), [wraps(x, t), balA(t, n, m)])
        fp.rule(balA(x, n, m), [wraps(x, t), balA(t, n, m)])
        # ---- facts from the live graph
        self.nfacts = 0

        def fact(f):
            fp.fact(f)
            self.nfacts += 1
        for nd in g.nodes:
            i = nv(nd.id)
            if nd.kind == "meta" or nd.kind == "conditional":
                v = meta_value(nd, assignment)
                fact(balA(i, vv(v), vv(min(0, v))))
                fact(balW(i, zero, zero))
            elif nd.kind == "segment":
                if nd.target >= 0:
                    fact(wraps(i, nv(nd.target)))
                else:
                    fact(balA(i, zero, zero))
                    fact(balW(i, zero, zero))
            elif nd.kind == "ref":
                if nd.target >= 0:
                    fact(alias(i, nv(nd.target)))
            elif nd.kind in ("parser", "anything", "other"):
                fact(balA(i, zero, zero))
                fact(balW(i, zero, zero))
            elif nd.kind == "nothing":
                pass
            elif nd.kind in ("sequence", "bracketed"):
                fact(isseq(i))
                if nd.kind == "bracketed":
                    fact(isbr(i))
                    if getattr(nd, "persists", True):
                        fact(persists(i))
                fact(seqlen(i, pv(len(nd.elements))))
                for pos, cid in enumerate(nd.elements):
                    ch = g.nodes[cid]
                    if ch.kind in ("meta", "conditional"):
                        fact(metael(i, pv(pos)))
                        fact(elem(i, pv(pos), nv(cid)))
                    else:
                        fact(elem(i, pv(pos), nv(cid)))
                        if ch.obj.is_optional():
                            fact(opt(i, pv(pos)))
            elif nd.kind in ("anynumberof", "delimited", "grammar"):
                for cid in nd.elements:
                    fact(anyel(i, nv(cid)))
                if not nd.elements:
                    fact(balA(i, zero, zero))
                    fact(balW(i, zero, zero))
                mt = getattr(nd.obj, "max_times", None)
                if nd.kind == "delimited" or (nd.kind == "anynumberof" and mt != 1):
                    fact(many(i))
                if nd.kind == "anynumberof" and getattr(nd.obj, "min_times", 1) == 0:
                    fact(min0(i))
        self.zero = zero
        self.nv, self.vv = nv, vv

    def values(self, node_id: int, which: str = "BalA") -> set:
        """All (n, m) with Bal(node, n, m): one Datalog query per candidate value (7x7)."""
        out = set()
        f = self.R[which]
        for a in range(-K, K + 1):
            for b in range(-K, min(a, 0) + 1):
                if self.fp.query(f(self.nv(node_id), self.vv(a), self.vv(b))) == z3.sat:
                    out.add((a, b))
        return out

    def unbalanced_root(self):
        """Query: exists (n, m) != (0, 0) with BalA(root, n, m)?  Returns (verdict, queries, seconds)."""
        n, m = z3.Consts("qn qm", z3.BitVecSort(VB))
        self.fp.declare_var(n, m)
        bad = z3.Function("BadRoot", z3.BoolSort())
        self.fp.register_relation(bad)
        self.fp.rule(bad(), [self.R["BalA"](self.nv(self.g.root), n, m), z3.Or(n != self.zero, m != self.zero)])
        t = time.time()
        r = self.fp.query(bad())
        return r, 1, time.time() - t


def python_fixpoint(g: Graph, assignment: dict):
    """Reference fixpoint in plain Python: used ONLY to localise culprit nodes for replay-input selection and to
    cross-check the Datalog verdict (they must agree)."""
    def clamp(v):
        return max(-K, min(K, v))

    def comb(a, b):
        return {(clamp(n1 + n2), clamp(min(m1, n1 + m2))) for n1, m1 in a for n2, m2 in b}
    A = [set() for _ in g.nodes]
    Wd = [set() for _ in g.nodes]
    changed = True
    while changed:
        changed = False
        for nd in g.nodes:
            a, w = set(), set()
            if nd.kind in ("meta", "conditional"):
                v = meta_value(nd, assignment)
                a, w = {(v, min(0, v))}, {(0, 0)}
            elif nd.kind == "segment":
                if nd.target >= 0:
                    a = set(A[nd.target])
                    w = set(a)
                else:
                    a = w = {(0, 0)}
            elif nd.kind == "ref":
                if nd.target >= 0:
                    a, w = set(A[nd.target]), set(Wd[nd.target])
            elif nd.kind in ("parser", "anything", "other"):
                a = w = {(0, 0)}
            elif nd.kind in ("sequence", "bracketed"):
                ca, cw = {(0, 0)}, {(0, 0)}
                for cid in nd.elements:
                    ch = g.nodes[cid]
                    if ch.kind in ("meta", "conditional"):
                        ca = comb(ca, A[cid])
                        continue
                    na, nw = comb(ca, A[cid]), comb(cw, Wd[cid])
                    if ch.obj.is_optional():
                        na |= ca
                        nw |= cw
                    ca, cw = na, nw
                if nd.kind == "bracketed":
                    a = comb(comb({(1, 0)}, cw), {(-1, -1)})
                    w = set(a) if getattr(nd, "persists", True) else cw
                else:
                    a, w = ca, cw
            elif nd.kind in ("anynumberof", "delimited", "grammar"):
                for tab, dst in ((A, "a"), (Wd, "w")):
                    single = set()
                    for cid in nd.elements:
                        single |= tab[cid]
                    new = set(single)
                    mt = getattr(nd.obj, "max_times", None)
                    if nd.kind == "delimited" or (nd.kind == "anynumberof" and mt != 1):
                        prev = None
                        while prev != new:
                            prev = set(new)
                            new |= comb(new, single)
                    if nd.kind == "anynumberof" and getattr(nd.obj, "min_times", 1) == 0:
                        new |= {(0, 0)}
                    if not nd.elements:
                        new = {(0, 0)}
                    if dst == "a":
                        a = new
                    else:
                        w = new
            if not a <= A[nd.id] or not w <= Wd[nd.id]:
                A[nd.id] |= a
                Wd[nd.id] |= w
                changed = True
    return A, Wd


def culprits(g: Graph, assignment: dict):
    """Segment classes whose OWN grammar (down to, but not into, other segment classes, which are taken as balanced)
    is unbalanced.  Used only to choose replay inputs (fixtures mentioning the culprit's keywords)."""
    def clamp(v):
        return max(-K, min(K, v))

    def comb(a, b):
        return {(clamp(n1 + n2), clamp(min(m1, n1 + m2))) for n1, m1 in a for n2, m2 in b}
    Z = {(0, 0)}

    def ev(nid, stack, kws):
        """returns (A, W) local value sets"""
        nd = g.nodes[nid]
        if nd.kind in ("meta", "conditional"):
            v = meta_value(nd, assignment)
            return {(v, min(0, v))}, Z
        if nd.kind in ("segment", "parser", "anything", "other"):
            t_ = getattr(nd.obj, "template", None)
            if isinstance(t_, str) and t_.replace("_", "").isalnum():
                kws.add(t_.upper())
            return Z, Z
        if nd.kind == "nothing":
            return set(), set()
        if nid in stack:
            return Z, Z
        stack = stack | {nid}
        if nd.kind == "ref":
            if nd.refname.endswith("KeywordSegment"):
                kws.add(nd.refname[:-len("KeywordSegment")].upper())
            return ev(nd.target, stack, kws) if nd.target >= 0 else (set(), set())
        if nd.kind in ("sequence", "bracketed"):
            ca, cw = Z, Z
            for cid in nd.elements:
                ch = g.nodes[cid]
                a, w = ev(cid, stack, kws)
                if ch.kind in ("meta", "conditional"):
                    ca = comb(ca, a)
                    continue
                na, nw = comb(ca, a), comb(cw, w)
                if ch.obj.is_optional():
                    na |= ca
                    nw |= cw
                ca, cw = na, nw
            if nd.kind == "bracketed":
                a = comb(comb({(1, 0)}, cw), {(-1, -1)})
                return a, (set(a) if getattr(nd, "persists", True) else cw)
            return ca, cw
        outs = []
        for idx in (0, 1):
            single = set()
            for cid in nd.elements:
                single |= ev(cid, stack, kws)[idx]
            new = set(single)
            mt = getattr(nd.obj, "max_times", None)
            if nd.kind == "delimited" or (nd.kind == "anynumberof" and mt != 1):
                prev = None
                while prev != new:
                    prev = set(new)
                    new |= comb(new, single)
            if not nd.elements or (nd.kind == "anynumberof" and getattr(nd.obj, "min_times", 1) == 0):
                new |= Z
            outs.append(new)
        return outs[0], outs[1]

    out = []
    for nd in g.nodes:
        if nd.kind == "segment" and nd.target >= 0:
            kws: set = set()
            a, _ = ev(nd.target, frozenset(), kws)
            if any(v != (0, 0) for v in a):
                out.append((nd, sorted(a), sorted(kws)))
    return out
