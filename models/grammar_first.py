"""FIRST sets over a dialect's grammar graph (z3 Datalog), compared against the live simple() hints used for pruning.

First(node, tok): some match of `node` can start with token class `tok` (an upper-cased raw or a segment type taken from
the live leaf parsers' own hints).  Unk(node): `node` can start with something no leaf hint enumerates (regex parsers,
Anything, ...).  A hint H(node) != None is sound iff First(node) is a subset of H(node) and not Unk(node).
"""
from __future__ import annotations

import time

import z3

from models.grammar_graph import Graph, is_meta
from sqlfluff.core.parser.context import ParseContext

NB, TB = 16, 16


def live_hint(node, ctx):
    x = node.obj
    try:
        if isinstance(x, tuple):   # bracket refs synthesised by the walker
            return "skip"
        return x.simple(parse_context=ctx) if not isinstance(x, type) else x.simple(parse_context=ctx)
    except RecursionError:
        return "skip"
    except Exception:
        return "skip"


class FirstModel:
    def __init__(self, g: Graph):
        self.g = g
        self.ctx = ParseContext(dialect=g.dialect, max_parse_depth=255)
        fp = z3.Fixedpoint()
        fp.set(engine="datalog")
        self.fp = fp
        N, T, B = z3.BitVecSort(NB), z3.BitVecSort(TB), z3.BoolSort()

        def rel(name, *s):
            f = z3.Function(name, *s, B)
            fp.register_relation(f)
            return f
        first, unk, head, hint, bad = rel("First", N, T), rel("Unk", N), rel("Head", N, N), rel("Hint", N, T), rel("Bad", N, T)
        hashint, badunk = rel("HasHint", N), rel("BadUnk", N)
        self.R = dict(first=first, unk=unk, bad=bad, badunk=badunk)
        x, c = z3.Consts("x c", N)
        t = z3.Const("t", T)
        fp.declare_var(x, c, t)
        fp.rule(first(x, t), [head(x, c), first(c, t)])
        fp.rule(unk(x), [head(x, c), unk(c)])
        fp.rule(bad(x, t), [hashint(x), first(x, t), z3.Not(hint(x, t))])
        fp.rule(badunk(x), [hashint(x), unk(x)])
        self.tok_ids: dict = {}
        nv = lambda i: z3.BitVecVal(i, NB)  # noqa: E731
        self.nv = nv

        def tv(tok):
            if tok not in self.tok_ids:
                self.tok_ids[tok] = len(self.tok_ids)
            return z3.BitVecVal(self.tok_ids[tok], TB)
        self.tv = tv
        self.hints = {}
        self.nfacts = 0
        self.heads: dict = {}
        self.leaf_first: dict = {}
        self.leaf_unk: set = set()
        for nd in g.nodes:
            i = nv(nd.id)
            heads = []
            if nd.kind in ("meta", "conditional"):
                continue
            if nd.kind == "segment":
                if nd.target >= 0:
                    heads = [nd.target]
                else:
                    h = live_hint(nd, self.ctx)
                    self._leaf(nd, h, first, unk)
            elif nd.kind == "ref":
                if nd.target >= 0:
                    heads = [nd.target]
            elif nd.kind in ("parser",):
                self._leaf(nd, live_hint(nd, self.ctx), first, unk)
            elif nd.kind == "anything" or nd.kind == "other":
                fp.fact(unk(i))
                self.leaf_unk.add(nd.id)
            elif nd.kind == "nothing":
                pass
            elif nd.kind == "bracketed":
                # starts with its start bracket (explicit override or the dialect's bracket-pair ref = first bracket-ref node)
                sb = getattr(nd.obj, "start_bracket", None)
                if sb is not None:
                    heads = [g._ids[g._key(sb)]]
                else:
                    refs = [j for j in nd.others if g.nodes[j].kind == "ref" and isinstance(g.nodes[j].obj, tuple)]
                    heads = refs[:1]
            elif nd.kind == "sequence":
                for cid in nd.elements:
                    ch = g.nodes[cid]
                    if ch.kind in ("meta", "conditional"):
                        continue
                    heads.append(cid)
                    if not ch.obj.is_optional():
                        break
            elif nd.kind in ("anynumberof", "delimited", "grammar"):
                heads = list(nd.elements)
            for h in heads:
                fp.fact(head(i, nv(h)))
                self.nfacts += 1
            if heads:
                self.heads[nd.id] = list(heads)
            # live hint of every non-leaf node
            if nd.kind not in ("parser",) and not (nd.kind == "segment" and nd.target < 0):
                h = live_hint(nd, self.ctx)
                if h not in (None, "skip"):
                    self.hints[nd.id] = h
                    fp.fact(hashint(i))
                    for r in h[0]:
                        fp.fact(hint(i, tv(("raw", r))))
                    for ty in h[1]:
                        fp.fact(hint(i, tv(("type", ty))))

    def _leaf(self, nd, h, first, unk):
        i = self.nv(nd.id)
        if h in (None, "skip"):
            self.fp.fact(unk(i))
            self.leaf_unk.add(nd.id)
            return
        toks = [("raw", r) for r in h[0]] + [("type", ty) for ty in h[1]]
        self.leaf_first[nd.id] = set(toks)
        for tk in toks:
            self.fp.fact(first(i, self.tv(tk)))

    def unsound_hints(self):
        """[(node, token or None)] where the live hint misses a FIRST token (None: the node may start with a non-enumerable
        token although it advertises a hint).  One query for existence, then one per hinted node to extract witnesses."""
        x = z3.Const("qx", z3.BitVecSort(NB))
        t = z3.Const("qt", z3.BitVecSort(TB))
        self.fp.declare_var(x, t)
        nq, t0, out = 0, time.time(), []
        r1 = self.fp.query(self.R["bad"](x, t))
        r2 = self.fp.query(self.R["badunk"](x))
        nq += 2
        if r1 == z3.sat or r2 == z3.sat:
            # verdict is the solver's; the witness is LOCATED with a plain fixpoint over the same facts and then
            # confirmed by one more Datalog query on that (node, token)
            first = {nid: set(toks) for nid, toks in self.leaf_first.items()}
            unk = set(self.leaf_unk)
            changed = True
            while changed:
                changed = False
                for nid, hs in self.heads.items():
                    cur = first.setdefault(nid, set())
                    before = (len(cur), nid in unk)
                    for h in hs:
                        cur |= first.get(h, set())
                        if h in unk:
                            unk.add(nid)
                    if before != (len(cur), nid in unk):
                        changed = True
            for nid, h in self.hints.items():
                allowed = {("raw", r) for r in h[0]} | {("type", ty) for ty in h[1]}
                if nid in unk:
                    nq += 1
                    if self.fp.query(self.R["badunk"](self.nv(nid))) == z3.sat:
                        out.append((nid, None))
                miss = sorted(first.get(nid, set()) - allowed)
                if miss:
                    nq += 1
                    if self.fp.query(self.R["bad"](self.nv(nid), self.tv(miss[0]))) == z3.sat:
                        out.append((nid, miss[0]))
                if len(out) >= 5:
                    break
        return out, nq, time.time() - t0
