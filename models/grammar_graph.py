"""Walk a live dialect's grammar object graph (regenerated from /repo on every run) into a typed node/edge graph."""
from __future__ import annotations

from dataclasses import dataclass, field

from sqlfluff.core.dialects import dialect_selector
from sqlfluff.core.parser.grammar.anyof import AnyNumberOf, AnySetOf, OneOf
from sqlfluff.core.parser.grammar.base import Anything, BaseGrammar, Nothing, Ref
from sqlfluff.core.parser.grammar.conditional import Conditional
from sqlfluff.core.parser.grammar.delimited import Delimited
from sqlfluff.core.parser.grammar.sequence import Bracketed, Sequence
from sqlfluff.core.parser.parsers import BaseParser
from sqlfluff.core.parser.segments.base import BaseSegment
from sqlfluff.core.parser.segments.meta import MetaSegment


def is_meta(e) -> bool:
    return isinstance(e, Conditional) or (isinstance(e, type) and issubclass(e, MetaSegment))


@dataclass
class Node:
    id: int
    obj: object
    kind: str
    owner: str = ""           # nearest enclosing segment / ref name (for messages)
    elements: list = field(default_factory=list)   # ordered element node ids (grammars)
    others: list = field(default_factory=list)     # exclude / terminators / delimiter / brackets node ids
    target: int = -1          # Ref -> resolved node, segment -> match_grammar node
    refname: str = ""         # for Ref / bracket refs
    resolved: bool = True


class Graph:
    def __init__(self, label: str):
        self.label = label
        self.dialect = dialect_selector(label)
        self.nodes: list[Node] = []
        self._ids: dict = {}
        self.root = self._walk(self.dialect.get_root_segment(), "root")
        self._drain()

    # ------------------------------------------------------------------
    def _key(self, x):
        return ("cls", x) if isinstance(x, type) else ("obj", id(x))

    def _kind(self, x) -> str:
        if isinstance(x, type):
            if issubclass(x, MetaSegment):
                return "meta"
            if issubclass(x, BaseSegment):
                return "segment"
            return "other"
        if isinstance(x, Conditional):
            return "conditional"
        if isinstance(x, Ref):
            return "ref"
        if isinstance(x, Bracketed):
            return "bracketed"
        if isinstance(x, Sequence):
            return "sequence"
        if isinstance(x, Delimited):
            return "delimited"
        if isinstance(x, AnyNumberOf):  # OneOf, AnySetOf, OptionallyBracketed are subclasses
            return "anynumberof"
        if isinstance(x, Nothing):
            return "nothing"
        if isinstance(x, Anything):
            return "anything"
        if isinstance(x, BaseParser):
            return "parser"
        if isinstance(x, BaseGrammar):
            return "grammar"
        return "other"

    def _walk(self, x, owner) -> int:
        k = self._key(x)
        if k in self._ids:
            return self._ids[k]
        n = Node(len(self.nodes), x, self._kind(x), owner)
        self.nodes.append(n)
        self._ids[k] = n.id
        self._todo = getattr(self, "_todo", [])
        self._todo.append(n.id)
        return n.id

    def _drain(self):
        lib = self.dialect._library
        while self._todo:
            n = self.nodes[self._todo.pop()]
            x = n.obj
            if n.kind == "segment":
                mg = getattr(x, "match_grammar", None)
                if mg is not None:
                    n.target = self._walk(mg, x.__name__)
            elif n.kind == "ref":
                n.refname = x._ref
                if x.exclude is not None:
                    n.others.append(self._walk(x.exclude, n.owner))
                for t in x.terminators or ():
                    n.others.append(self._walk(t, n.owner))
                if x._ref in lib and lib[x._ref]:
                    n.target = self._walk(lib[x._ref], x._ref)
                else:
                    n.resolved = False
            elif n.kind == "conditional":
                pass
            elif isinstance(x, BaseGrammar):
                for e in x._elements:
                    n.elements.append(self._walk(e, n.owner))
                for t in getattr(x, "terminators", ()) or ():
                    n.others.append(self._walk(t, n.owner))
                for a in ("exclude", "delimiter", "start_bracket", "end_bracket"):
                    v = getattr(x, a, None)
                    if v is not None and not isinstance(v, (str, bool)):
                        n.others.append(self._walk(v, n.owner))
                if n.kind == "bracketed":
                    sets = self.dialect.bracket_sets(x.bracket_pairs_set)
                    found = False
                    for bt, s, e, p in sets:
                        if bt == x.bracket_type:
                            found = True
                            n.persists = p
                            for r in (s, e):
                                b = Node(len(self.nodes), ("bracket-ref", r), "ref", n.owner, refname=r)
                                self.nodes.append(b)
                                n.others.append(b.id)
                                if r in lib and lib[r]:
                                    b.target = self._walk(lib[r], r)
                                else:
                                    b.resolved = False
                    if not found:
                        b = Node(len(self.nodes), ("bracket-type", x.bracket_type), "ref", n.owner,
                                 refname=f"<bracket_type {x.bracket_type!r} of {x.bracket_pairs_set}>", resolved=False)
                        self.nodes.append(b)
                        n.others.append(b.id)

    def edges(self):
        for n in self.nodes:
            for j in n.elements + n.others:
                yield n.id, j
            if n.target >= 0:
                yield n.id, n.target
