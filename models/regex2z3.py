"""Translate (a subset of) Python/`regex`-module patterns into z3 regular expressions over z3 String.

The pattern text is always taken from the live objects / the AST of /repo at check time; nothing is transcribed by hand.
Unsupported constructs raise Unsupported (the caller reports "inconclusive", never "pass").
"""
from __future__ import annotations

import re._constants as C
import re._parser as P

import z3

MAXCHAR = 0x2FFFF  # z3's unicode character range upper bound

# str.isspace()/`\s` for str patterns (Python docs: Unicode whitespace)
UNICODE_WS = [(0x09, 0x0D), (0x1C, 0x1F), (0x20, 0x20), (0x85, 0x85), (0xA0, 0xA0), (0x1680, 0x1680),
              (0x2000, 0x200A), (0x2028, 0x2029), (0x202F, 0x202F), (0x205F, 0x205F), (0x3000, 0x3000)]
ASCII_DIGIT = [(0x30, 0x39)]
ASCII_WORD = [(0x30, 0x39), (0x41, 0x5A), (0x5F, 0x5F), (0x61, 0x7A)]


class Unsupported(Exception):
    pass


def _ch(cp: int):
    return z3.Unit(z3.CharVal(cp)) if hasattr(z3, "CharVal") else z3.StringVal(chr(cp))


def _range(lo: int, hi: int):
    if lo == hi:
        return z3.Re(_ch(lo))
    return z3.Range(_ch(lo), _ch(hi))


def _union(rs):
    rs = list(rs)
    if not rs:
        return z3.Empty(z3.ReSort(z3.StringSort()))
    return rs[0] if len(rs) == 1 else z3.Union(*rs)


def _ranges_re(ranges):
    return _union(_range(a, b) for a, b in ranges)


def _complement_ranges(ranges):
    out, prev = [], 0
    for a, b in sorted(ranges):
        if a > prev:
            out.append((prev, a - 1))
        prev = max(prev, b + 1)
    if prev <= MAXCHAR:
        out.append((prev, MAXCHAR))
    return out


def _merge(ranges):
    out = []
    for a, b in sorted(ranges):
        if out and a <= out[-1][1] + 1:
            out[-1] = (out[-1][0], max(out[-1][1], b))
        else:
            out.append((a, b))
    return out


class Translator:
    def __init__(self, dotall: bool = False, ignorecase: bool = False):
        self.dotall = dotall
        self.ignorecase = ignorecase
        self.approximations: list[str] = []

    def category(self, cat):
        if cat == C.CATEGORY_SPACE:
            return UNICODE_WS
        if cat == C.CATEGORY_NOT_SPACE:
            return _complement_ranges(UNICODE_WS)
        if cat == C.CATEGORY_DIGIT:
            self.approximations.append("\\d approximated by ASCII digits")
            return ASCII_DIGIT
        if cat == C.CATEGORY_NOT_DIGIT:
            self.approximations.append("\\D approximated by complement of ASCII digits")
            return _complement_ranges(ASCII_DIGIT)
        if cat == C.CATEGORY_WORD:
            self.approximations.append("\\w approximated by ASCII word characters")
            return ASCII_WORD
        if cat == C.CATEGORY_NOT_WORD:
            self.approximations.append("\\W approximated by complement of ASCII word characters")
            return _complement_ranges(ASCII_WORD)
        raise Unsupported(f"category {cat}")

    def _case(self, ranges):
        if not self.ignorecase:
            return ranges
        extra = []
        for a, b in ranges:
            for lo, hi, d in ((0x41, 0x5A, 32), (0x61, 0x7A, -32)):
                x, y = max(a, lo), min(b, hi)
                if x <= y:
                    extra.append((x + d, y + d))
        return ranges + extra

    def char_set(self, items):
        negate = False
        ranges = []
        for op, av in items:
            if op == C.NEGATE:
                negate = True
            elif op == C.LITERAL:
                ranges.append((av, av))
            elif op == C.RANGE:
                ranges.append((av[0], av[1]))
            elif op == C.CATEGORY:
                ranges += self.category(av)
            else:
                raise Unsupported(f"set item {op}")
        ranges = _merge(self._case(ranges))
        return _complement_ranges(ranges) if negate else ranges

    def seq(self, items):
        parts = [self.node(op, av) for op, av in items]
        if not parts:
            return z3.Re(z3.StringVal(""))
        return parts[0] if len(parts) == 1 else z3.Concat(*parts)

    def node(self, op, av):
        if op == C.LITERAL:
            return _ranges_re(_merge(self._case([(av, av)])))
        if op == C.NOT_LITERAL:
            return _ranges_re(_complement_ranges(_merge(self._case([(av, av)]))))
        if op == C.ANY:
            return _ranges_re([(0, MAXCHAR)] if self.dotall else _complement_ranges([(10, 10)]))
        if op == C.IN:
            return _ranges_re(self.char_set(av))
        if op == C.BRANCH:
            return _union(self.seq(b) for b in av[1])
        if op == C.SUBPATTERN:
            # av = (group, add_flags, del_flags, pattern)
            if av[1] or av[2]:
                raise Unsupported("inline flags")
            return self.seq(av[3])
        if op in (C.MAX_REPEAT, C.MIN_REPEAT, getattr(C, "POSSESSIVE_REPEAT", None)):
            lo, hi, sub = av
            r = self.seq(sub)
            if hi == C.MAXREPEAT:
                if lo == 0:
                    return z3.Star(r)
                if lo == 1:
                    return z3.Plus(r)
                return z3.Concat(z3.Loop(r, lo, lo), z3.Star(r))
            return z3.Loop(r, lo, hi)
        if op == getattr(C, "ATOMIC_GROUP", None):
            return self.seq(av)
        raise Unsupported(f"regex op {op}")

    def translate(self, pattern: str):
        try:
            parsed = P.parse(pattern)
        except Exception as e:  # `regex`-module-only syntax
            raise Unsupported(f"cannot parse {pattern!r}: {e}")
        return self.seq(list(parsed))


def to_re(pattern: str, dotall: bool = False, ignorecase: bool = False):
    t = Translator(dotall, ignorecase)
    return t.translate(pattern), t.approximations


def any_string():
    return z3.Star(_ranges_re([(0, MAXCHAR)]))


def self_test() -> int:
    """Differential validation of the translator against the real `re`/`regex` engines on concrete strings."""
    import itertools
    import re
    checked = 0
    pats = [r"[^\S\r\n]+", r"\r\n|\n", r"[^\t\n\ ]*", r"\{[{%#]", r"a(b|cd)*e", r"[a-c]{2,3}x?", r"\r\n|\r"]
    alphabet = ["a", "b", "c", "d", "e", "x", " ", "\t", "\n", "\r", "{", "%", "#", "\xa0", " "]
    for p in pats:
        r, _ = to_re(p, dotall=True)
        for n in range(0, 3):
            for tup in itertools.product(alphabet, repeat=n):
                s = "".join(tup)
                want = re.fullmatch(p, s, re.DOTALL) is not None
                sol = z3.Solver()
                sol.add(z3.InRe(z3.StringVal(s), r))
                got = sol.check() == z3.sat
                assert got == want, (p, s, got, want)
                checked += 1
    return checked
