#!/bin/sh
# Build the offline overlay venv used by every check (idempotent).
# /venv holds sqlfluff (editable -> /repo/src) and its deps; the overlay adds z3-solver, crosshair-tool, cvc5.
set -e
HERE="$(cd "$(dirname "$0")" && pwd)"
V="$HERE/.venv"
if [ -x "$V/bin/python" ] && "$V/bin/python" -c "import z3, sqlfluff" >/dev/null 2>&1; then
  exit 0
fi
rm -rf "$V"
/venv/bin/python -m venv "$V"
SP="$("$V/bin/python" -c 'import sysconfig; print(sysconfig.get_paths()["purelib"])')"
printf "import site; site.addsitedir('/venv/lib/python3.12/site-packages')\n" > "$SP/verif_overlay.pth"
PIP_NO_INDEX=1 "$V/bin/python" -m pip install -q --no-index --find-links /opt/veriftools/wheels z3-solver crosshair-tool cvc5 >/dev/null 2>&1 || \
PIP_NO_INDEX=1 "$V/bin/python" -m pip install -q --no-index --find-links /opt/veriftools/wheels z3-solver
"$V/bin/python" -c "import z3, sqlfluff; print('verif venv ok', z3.get_version_string(), sqlfluff.__file__)"
