from .core import *
from .values import *
