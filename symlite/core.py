"""symlite core: path exploration of natively-executing real code over z3 (scratch v2, not yet committed)."""
from __future__ import annotations

import multiprocessing as mp
import time
import traceback
from dataclasses import dataclass, field
from typing import Any, Callable, Optional

import z3


class Abort(BaseException):
    """Path steering: infeasible path / failed assumption. BaseException on purpose."""


class EngineUnsupported(Exception):
    """The real code did something the proxies cannot model soundly."""


@dataclass
class Stats:
    paths: int = 0
    aborted: int = 0
    nontrivial: int = 0
    queries: int = 0
    solver_s: float = 0.0
    unknown: int = 0
    max_depth: int = 0

    def add(self, o: "Stats") -> None:
        self.paths += o.paths; self.aborted += o.aborted; self.nontrivial += o.nontrivial
        self.queries += o.queries; self.solver_s += o.solver_s; self.unknown += o.unknown
        self.max_depth = max(self.max_depth, o.max_depth)


# schedule entries:  ("b", bool) | ("v", value, tried_before) | ("n", tried)
class Ctx:
    """One per executed path."""

    cur: Optional["Ctx"] = None

    def __init__(self, schedule: list, query_timeout_ms: int = 20000):
        self.solver = z3.Solver()
        self.solver.set("timeout", query_timeout_ms)
        self.schedule = schedule
        self.pos = 0
        self.trail: list[tuple[tuple, bool]] = []  # (entry, has_alternative)
        self.n_checks = 0
        self.solver_s = 0.0
        self.unknown = 0
        self.forks = 0
        self.vars: dict[str, Any] = {}
        self.witnesses: set[str] = set()
        self.model = None  # a model of the current path condition, when one is known (saves one query per fork)
        self.concrete: Optional[dict] = None  # concrete replay mode: fresh_* hand out plain Python values from this model

    def check(self, *extra):
        t = time.perf_counter()
        r = self.solver.check(*extra)
        self.solver_s += time.perf_counter() - t
        self.n_checks += 1
        if r == z3.unknown:
            self.unknown += 1
        if not extra:
            self.model = self.solver.model() if r == z3.sat else None
        return r

    def _model_says(self, cond):
        """Truth value of cond under the cached model of the path condition (None when no model is cached)."""
        if self.model is None:
            return None
        v = self.model.eval(cond, model_completion=True)
        if z3.is_true(v):
            return True
        if z3.is_false(v):
            return False
        return None

    def branch(self, cond) -> bool:
        cond = z3.simplify(cond)
        if z3.is_true(cond):
            return True
        if z3.is_false(cond):
            return False
        if self.pos < len(self.schedule):
            e = self.schedule[self.pos]
            assert e[0] == "b", f"schedule desync: expected bool decision, got {e}"
            self.pos += 1
            self.trail.append((e, False))
            self.solver.add(cond if e[1] else z3.Not(cond))
            self.model = None
            return e[1]
        if self.model is None:
            if self.check() == z3.unsat:
                raise Abort()
        says = self._model_says(cond)
        if says is None:
            can_t = self.check(cond) != z3.unsat  # unknown => explore (sound for proofs)
            can_f = self.check(z3.Not(cond)) != z3.unsat
            self.model = None
        elif says:
            can_t = True
            can_f = self.check(z3.Not(cond)) != z3.unsat
        else:
            can_f = True
            can_t = self.check(cond) != z3.unsat
        if not (can_t or can_f):
            raise Abort()
        choice = says if says is not None else can_t
        both = can_t and can_f
        if both:
            self.forks += 1
        self.pos += 1
        self.trail.append((("b", choice), both))
        self.solver.add(cond if choice else z3.Not(cond))
        return choice

    def choose_value(self, expr) -> int:
        """Concretise an integer term by forking over its feasible values (needs a bounded range)."""
        v = z3.simplify(expr)
        if z3.is_int_value(v):
            return v.as_long()
        tried: tuple = ()
        if self.pos < len(self.schedule):
            e = self.schedule[self.pos]
            if e[0] == "v":
                self.pos += 1
                self.trail.append((e, False))
                self.solver.add(expr == e[1])
                self.model = None
                return e[1]
            assert e[0] == "n", f"schedule desync: expected value decision, got {e}"
            tried = e[1]
        for t in tried:
            self.solver.add(expr != t)
        r = self.check()
        if r != z3.sat:
            self.pos += 1
            self.trail.append((("n", tried), False))
            raise Abort()
        m = self.solver.model()
        val = m.eval(expr, model_completion=True).as_long()
        more = self.check(expr != val) != z3.unsat  # is there any other feasible value left? (saves an aborted re-run)
        self.pos += 1
        if more:
            self.forks += 1
        self.trail.append((("v", val, tried), more))
        self.solver.add(expr == val)
        self.model = m  # satisfies expr == val: cache stays valid
        return val

    def assume(self, cond) -> None:
        e = getattr(cond, "e", cond)
        if isinstance(e, bool):
            if not e:
                raise Abort()
            return
        if self.concrete is not None:
            v = z3.simplify(e)
            if z3.is_false(v):
                raise Abort()
            if not z3.is_true(v):
                raise EngineUnsupported(f"concrete replay met a non-constant assumption: {v}")
            return
        self.solver.add(e)
        if self._model_says(e) is True:
            return
        if self.check() == z3.unsat:
            raise Abort()

    pin: dict = {}  # debugging: name -> concrete value forced at declaration (see lib/debug.py)

    def declare(self, name: str, term):
        self.vars[name] = term
        if name in Ctx.pin:
            v = Ctx.pin[name]
            self.solver.add(term == (z3.BoolVal(v) if isinstance(v, bool) else v))
            self.model = None
        return term

    def witness(self, name: str) -> None:
        self.witnesses.add(name)

    def small_model(self, extra):
        """A model of path && extra preferring small magnitudes for the declared integers (readable replays)."""
        ints = [t for t in self.vars.values() if z3.is_int(t)]
        for bound in (3, 8, 32, 256):
            r = self.check(extra, *[z3.And(t >= -bound, t <= bound) for t in ints])
            if r == z3.sat:
                return self.solver.model()
        self.check(extra)
        return self.solver.model()

    def model_values(self, model) -> dict:
        out = {}
        for k, t in self.vars.items():
            v = model.eval(t, model_completion=True)
            if z3.is_int_value(v):
                out[k] = v.as_long()
            elif z3.is_true(v) or z3.is_false(v):
                out[k] = bool(z3.is_true(v))
            elif z3.is_string_value(v):
                out[k] = v.as_string()
            else:
                out[k] = str(v)
        return out


def _raised_in_harness(e: BaseException) -> bool:
    """True when the exception is a bug of ours, never a finding: its innermost frame is harness/engine code and it
    is not an exception a stub deliberately injects into the code under test (a sqlfluff / OS error type that travelled
    through real code before escaping)."""
    here = __file__.rsplit("/symlite/", 1)[0] + "/"
    tb = e.__traceback__
    files = []
    while tb is not None:
        files.append(tb.tb_frame.f_code.co_filename)
        tb = tb.tb_next
    if not files or not files[-1].startswith(here):
        return False
    through_real_code = any("/sqlfluff/" in f and not f.startswith(here) for f in files)
    injected = type(e).__module__.startswith("sqlfluff") or isinstance(e, (OSError, KeyboardInterrupt))
    return not (through_real_code and injected)


def concrete_replay(harness: Callable[[Ctx], Any], model: dict, declared_exceptions: tuple = ()) -> Optional[str]:
    """Re-run a harness natively with every fresh_int/fresh_bool replaced by the plain Python value from `model`
    (no proxy objects reach the real code). Returns a description iff the property fails on this concrete input."""
    ctx = Ctx([])
    ctx.concrete = dict(model)
    Ctx.cur = ctx
    try:
        ok = harness(ctx)
    except Abort:
        return None  # the model does not satisfy the harness assumptions when made concrete
    except declared_exceptions:
        return None
    except EngineUnsupported:
        raise
    except Exception as e:
        if _raised_in_harness(e):
            raise
        return f"real code raises {type(e).__name__}: {e}"
    ok = getattr(ok, "e", ok)
    if isinstance(ok, bool):
        return None if ok else "oracle evaluates to False on the concrete input"
    v = z3.simplify(ok)
    if z3.is_false(v):
        return "oracle evaluates to False on the concrete input"
    if z3.is_true(v):
        return None
    s = z3.Solver()
    s.add(z3.Not(ok))
    return "oracle can be False on the concrete input" if s.check() == z3.sat else None


@dataclass
class Result:
    status: str  # PROVED | CEX | INCOMPLETE | ERROR
    stats: Stats
    cex: Optional[dict] = None
    cex_kind: str = ""
    samples: list = field(default_factory=list)
    witnesses: set = field(default_factory=set)
    remaining: list = field(default_factory=list)
    error: str = ""


def _alternative(entry: tuple) -> tuple:
    if entry[0] == "b":
        return ("b", not entry[1])
    if entry[0] == "v":
        return ("n", tuple(entry[2]) + (entry[1],))
    raise AssertionError(entry)


def explore(
    harness: Callable[[Ctx], Any],
    timeout_s: float = 600.0,
    max_paths: int = 10**9,
    prefix: Optional[list] = None,
    declared_exceptions: tuple = (),
    n_samples: int = 3,
    query_timeout_ms: int = 20000,
    stop_at_first_cex: bool = True,
    split_on_budget: bool = False,
) -> Result:
    """DFS by re-execution. harness(ctx) runs REAL code and returns z3 Bool / SymBool / bool that must hold."""
    t0 = time.time()
    stats = Stats()
    stack: list[list] = [[e, False] for e in (prefix or [])]  # [entry, has_alt]; prefix is never flipped
    samples: list = []
    witnesses: set = set()
    first = True
    while first or stack:
        first = False
        schedule = [e for e, _ in stack]
        ctx = Ctx(schedule, query_timeout_ms)
        Ctx.cur = ctx
        try:
            try:
                ok = harness(ctx)
            except (Abort, EngineUnsupported):
                raise
            except declared_exceptions:
                ok = True
            except Exception as e:  # undeclared exception escaping real code: violation on this path
                if _raised_in_harness(e):
                    _acc(stats, ctx)
                    return Result("ERROR", stats, error=f"exception raised by harness/engine code, not by the code under "
                                  f"test: {type(e).__name__}: {e}\n{traceback.format_exc(limit=6)}",
                                  samples=samples, witnesses=witnesses)
                r = ctx.check()
                if r == z3.sat:
                    m = ctx.small_model(z3.BoolVal(True))
                    _acc(stats, ctx)
                    return Result("CEX", stats, ctx.model_values(m),
                                  cex_kind=f"exception {type(e).__name__}: {e}\n{traceback.format_exc(limit=8)}",
                                  samples=samples, witnesses=witnesses)
                raise
            stats.paths += 1
            if ctx.forks or len(ctx.trail) > 0:
                stats.nontrivial += 1
            stats.max_depth = max(stats.max_depth, len(ctx.trail))
            witnesses |= ctx.witnesses
            ok = getattr(ok, "e", ok)
            if isinstance(ok, bool):
                ok = z3.BoolVal(ok)
            r = ctx.check(z3.Not(ok))
            if r == z3.sat:
                m = ctx.small_model(z3.Not(ok))
                _acc(stats, ctx)
                return Result("CEX", stats, ctx.model_values(m), cex_kind="assertion",
                              samples=samples, witnesses=witnesses)
            if len(samples) < n_samples and ctx.check() == z3.sat:
                samples.append({"decisions": len(ctx.trail), "model": ctx.model_values(ctx.solver.model())})
        except Abort:
            stats.aborted += 1
        except EngineUnsupported as e:
            _acc(stats, ctx)
            return Result("ERROR", stats, error=f"EngineUnsupported: {e}", samples=samples, witnesses=witnesses)
        _acc(stats, ctx)
        # merge the new part of the trail into the persistent stack
        new = ctx.trail[len(schedule):]
        if len(ctx.trail) >= len(schedule) and schedule and ctx.trail[len(schedule) - 1][0] != schedule[-1]:
            # the last scheduled entry was an ("n", tried) that materialised as ("v", val, tried)
            stack[-1] = [ctx.trail[len(schedule) - 1][0], ctx.trail[len(schedule) - 1][1]]
        for e, alt in new:
            stack.append([e, alt])
        # backtrack
        while stack and not stack[-1][1]:
            stack.pop()
        if not stack:
            break
        top = stack.pop()
        alt = _alternative(top[0])
        # ("b", x) flips once; ("n", tried) may yield further values: decided when executed
        stack.append([alt, False])
        if stats.paths + stats.aborted >= max_paths or time.time() - t0 > timeout_s:
            remaining = _open_prefixes(stack + []) if split_on_budget else []
            # the entry just pushed (the flipped alternative) is itself an unexplored subtree
            remaining.append([e for e, _ in stack])
            return Result("INCOMPLETE", stats, samples=samples, witnesses=witnesses, remaining=remaining)
    status = "PROVED" if stats.unknown == 0 else "INCOMPLETE"
    return Result(status, stats, samples=samples, witnesses=witnesses)


def _acc(stats: Stats, ctx: Ctx) -> None:
    stats.queries += ctx.n_checks
    stats.solver_s += ctx.solver_s
    stats.unknown += ctx.unknown


# ---------------------------------------------------------------- dynamic work splitting

def _open_prefixes(stack: list) -> list:
    """Every stack entry that still has an untried alternative roots an unexplored, disjoint subtree."""
    out = []
    for i, (e, alt) in enumerate(stack):
        if alt:
            out.append([x for x, _ in stack[:i]] + [_alternative(e)])
    return out


def run_sharded(make_harness: Callable[[], Callable], procs: int = 16, want: int = 64, timeout_s: float = 600.0,
                chunk_paths: int = 40, stall_s: float = 150.0, **kw) -> Result:
    """Explore the decision tree on a process pool. A task = (decision prefix, path budget); a task that exhausts
    its budget hands back the roots of its unexplored subtrees, which are queued as new tasks."""
    if procs <= 1:
        return explore(make_harness(), timeout_s=timeout_s, **kw)
    kw.pop("max_paths", None)
    global _MAKE
    _MAKE = make_harness  # inherited by fork; nothing non-picklable crosses the pipe
    t0 = time.time()
    total = Stats()
    out = Result("PROVED", total)
    queue: list[list] = [[]]
    inflight = []
    timed_out = False
    restarts = 0
    pool = mp.get_context("fork").Pool(procs)
    last_progress = time.time()
    try:
        while queue or inflight:
            while queue and len(inflight) < procs * 2:
                pfx = queue.pop()  # LIFO: deep prefixes first keeps the queue small
                budget = chunk_paths if (len(queue) + len(inflight)) < procs * 3 else chunk_paths * 8
                inflight.append((pool.apply_async(_run_prefix, (pfx, budget, kw)), pfx))
            still = []
            progressed = False
            for j, pfx in inflight:
                if not j.ready():
                    still.append((j, pfx))
                    continue
                progressed = True
                r = j.get()
                total.add(r.stats)
                if len(out.samples) < 6:
                    out.samples += r.samples[:1]
                out.witnesses |= r.witnesses
                if r.status == "CEX" and out.cex is None:
                    out.cex, out.cex_kind = r.cex, r.cex_kind
                elif r.status == "ERROR":
                    out.error = r.error
                elif r.status == "INCOMPLETE":
                    if r.remaining:
                        queue.extend(r.remaining)
                    else:
                        out.unknown_tasks = getattr(out, "unknown_tasks", 0) + 1
            inflight = still
            if out.cex is not None or out.error:
                break
            if time.time() - t0 > timeout_s:
                timed_out = True
                break
            if progressed:
                last_progress = time.time()
            else:
                # A task can be lost for good (multiprocessing.Pool does not resubmit the task of a worker that died, and a
                # worker can block on a lock another - killed - process still holds). Exploration tasks are idempotent
                # (a prefix of decisions), so after a long silence the pool is rebuilt and the open prefixes are resubmitted.
                if inflight and time.time() - last_progress > stall_s and restarts < 3:
                    restarts += 1
                    pool.terminate()
                    pool.join()
                    pool = mp.get_context("fork").Pool(procs)
                    queue.extend(pfx for _, pfx in inflight)
                    inflight = []
                    last_progress = time.time()
                    continue
                time.sleep(0.01)
    finally:
        pool.terminate()
        pool.join()
    out.restarts = restarts
    if out.cex is not None:
        out.status = "CEX"
    elif out.error:
        out.status = "ERROR"
    elif timed_out or total.unknown:
        out.status = "INCOMPLETE"
        out.remaining = queue
    return out


_MAKE = None


def _run_prefix(prefix, budget, kw):
    r = explore(_MAKE(), prefix=prefix, max_paths=budget, timeout_s=10**9, split_on_budget=True, **kw)
    r.samples = r.samples[:1]
    return r
