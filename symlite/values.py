"""symlite proxy values (scratch v2)."""
from __future__ import annotations

import z3

from .core import Ctx, EngineUnsupported

HASH_MODE = {"mode": "raise"}  # "raise" | "zero"


def _hash(obj):
    if HASH_MODE["mode"] == "zero":
        return 0
    raise EngineUnsupported(
        f"hash() of symbolic {type(obj).__name__}: rebind set/dict in the module under test "
        "or opt in to hash_zero() when every key of the container is symbolic"
    )


class hash_zero:
    """Context manager: all symbolic values hash to 0 (only sound when containers hold symbolic keys only)."""

    def __enter__(self):
        self.old = HASH_MODE["mode"]
        HASH_MODE["mode"] = "zero"

    def __exit__(self, *a):
        HASH_MODE["mode"] = self.old


def lift(x):
    if isinstance(x, SymInt):
        return x.e
    if isinstance(x, bool):
        return z3.IntVal(int(x))
    if isinstance(x, int):
        return z3.IntVal(x)
    if isinstance(x, z3.ArithRef):
        return x
    return NotImplemented


def liftb(x):
    if isinstance(x, SymBool):
        return x.e
    if isinstance(x, bool):
        return z3.BoolVal(x)
    return NotImplemented


class SymBool:
    __slots__ = ("e",)

    def __init__(self, e):
        self.e = e

    def __bool__(self):
        return Ctx.cur.branch(self.e)

    def __and__(self, o):
        l = liftb(o)
        return NotImplemented if l is NotImplemented else SymBool(z3.And(self.e, l))

    __rand__ = __and__

    def __or__(self, o):
        l = liftb(o)
        return NotImplemented if l is NotImplemented else SymBool(z3.Or(self.e, l))

    __ror__ = __or__

    def __invert__(self):
        return SymBool(z3.Not(self.e))

    def __eq__(self, o):
        l = liftb(o)
        return False if l is NotImplemented else SymBool(self.e == l)

    def __ne__(self, o):
        l = liftb(o)
        return True if l is NotImplemented else SymBool(self.e != l)

    def __hash__(self):
        return _hash(self)

    def __repr__(self):
        return f"SymBool({self.e})"


class SymInt:
    """Deliberately NOT an int subclass: C code must go through __index__ (fork) or fail loudly."""

    __slots__ = ("e",)

    def __init__(self, e):
        self.e = e

    def _bin(self, o, f):
        l = lift(o)
        return NotImplemented if l is NotImplemented else SymInt(f(self.e, l))

    def _rbin(self, o, f):
        l = lift(o)
        return NotImplemented if l is NotImplemented else SymInt(f(l, self.e))

    def _cmp(self, o, f):
        l = lift(o)
        return NotImplemented if l is NotImplemented else SymBool(f(self.e, l))

    def __add__(self, o): return self._bin(o, lambda a, b: a + b)
    def __radd__(self, o): return self._rbin(o, lambda a, b: a + b)
    def __sub__(self, o): return self._bin(o, lambda a, b: a - b)
    def __rsub__(self, o): return self._rbin(o, lambda a, b: a - b)
    def __mul__(self, o): return self._bin(o, lambda a, b: a * b)
    def __rmul__(self, o): return self._rbin(o, lambda a, b: a * b)

    def __floordiv__(self, o):
        # python floor division == z3 Int division only for positive divisors
        if isinstance(o, int) and o > 0:
            return SymInt(self.e / o)
        raise EngineUnsupported("SymInt // non-constant-positive")

    def __mod__(self, o):
        if isinstance(o, int) and o > 0:
            return SymInt(self.e % o)
        raise EngineUnsupported("SymInt % non-constant-positive")

    def __neg__(self): return SymInt(-self.e)
    def __pos__(self): return self
    def __abs__(self): return SymInt(z3.If(self.e >= 0, self.e, -self.e))
    def __lt__(self, o): return self._cmp(o, lambda a, b: a < b)
    def __le__(self, o): return self._cmp(o, lambda a, b: a <= b)
    def __gt__(self, o): return self._cmp(o, lambda a, b: a > b)
    def __ge__(self, o): return self._cmp(o, lambda a, b: a >= b)

    def __eq__(self, o):
        l = lift(o)
        return False if l is NotImplemented else SymBool(self.e == l)

    def __ne__(self, o):
        l = lift(o)
        return True if l is NotImplemented else SymBool(self.e != l)

    def __hash__(self):
        return _hash(self)

    def __bool__(self):
        return Ctx.cur.branch(self.e != 0)

    def __index__(self):
        return Ctx.cur.choose_value(self.e)

    __int__ = __index__

    def __repr__(self):
        return f"SymInt({z3.simplify(self.e)})"

    def __format__(self, spec):
        return f"<sym:{z3.simplify(self.e)}>"

    __str__ = __repr__


def _lifts(o):
    if isinstance(o, SymStr):
        return o.e
    if isinstance(o, str):
        return z3.StringVal(o)
    return NotImplemented


class SymStr:
    """z3-String backed text. Only concat / slice / equality / length / prefix / suffix / contains are modelled."""

    __slots__ = ("e",)

    def __init__(self, e):
        self.e = e

    def __add__(self, o):
        l = _lifts(o)
        return NotImplemented if l is NotImplemented else SymStr(z3.Concat(self.e, l))

    def __radd__(self, o):
        l = _lifts(o)
        return NotImplemented if l is NotImplemented else SymStr(z3.Concat(l, self.e))

    def symlen(self):
        return SymInt(z3.Length(self.e))

    def __len__(self):
        return Ctx.cur.choose_value(z3.Length(self.e))

    def __eq__(self, o):
        l = _lifts(o)
        return False if l is NotImplemented else SymBool(self.e == l)

    def __ne__(self, o):
        l = _lifts(o)
        return True if l is NotImplemented else SymBool(self.e != l)

    def __hash__(self):
        return _hash(self)

    def __bool__(self):
        return Ctx.cur.branch(z3.Length(self.e) > 0)

    def __getitem__(self, k):
        n = z3.Length(self.e)
        if isinstance(k, slice):
            if k.step is not None:
                raise EngineUnsupported("SymStr slice step")
            st = z3.IntVal(0) if k.start is None else lift(k.start)
            sp = n if k.stop is None else lift(k.stop)
            # python semantics for negative indices
            st = z3.If(st < 0, z3.If(st + n < 0, 0, st + n), z3.If(st > n, n, st))
            sp = z3.If(sp < 0, z3.If(sp + n < 0, 0, sp + n), z3.If(sp > n, n, sp))
            ln = z3.If(sp > st, sp - st, 0)
            return SymStr(z3.SubString(self.e, st, ln))
        raise EngineUnsupported("SymStr single index")

    def startswith(self, p):
        if isinstance(p, tuple):
            return SymBool(z3.Or(*[z3.PrefixOf(_lifts(x), self.e) for x in p]))
        return SymBool(z3.PrefixOf(_lifts(p), self.e))

    def endswith(self, p):
        return SymBool(z3.SuffixOf(_lifts(p), self.e))

    def __contains__(self, sub):
        return bool(SymBool(z3.Contains(self.e, _lifts(sub))))

    def __format__(self, spec):
        return "<symstr>"

    def __str__(self):
        return "<symstr>"

    __repr__ = __str__


class AbsStr:
    """Opaque text of (possibly symbolic) length: content is irrelevant to position arithmetic."""

    def __init__(self, n, tag="t"):
        self.n = n
        self.tag = tag

    def symlen(self):
        return self.n

    def __len__(self):
        return int(self.n)

    def __bool__(self):
        return bool(self.n > 0)

    def __getitem__(self, k):
        if not isinstance(k, slice):
            raise EngineUnsupported("AbsStr single index")
        st = 0 if k.start is None else k.start
        sp = self.n if k.stop is None else k.stop
        return AbsStr(sp - st, self.tag)

    def __add__(self, o):
        return AbsStr(self.n + sym_len(o), self.tag)

    def __radd__(self, o):
        return AbsStr(sym_len(o) + self.n, self.tag)

    def __eq__(self, o):
        if isinstance(o, AbsStr):
            return True
        return NotImplemented

    def __ne__(self, o):
        if isinstance(o, AbsStr):
            return False
        return NotImplemented

    def __hash__(self):
        return 0

    def upper(self): return self
    def lower(self): return self
    def strip(self, *a): return self
    def startswith(self, *a): return False
    def endswith(self, *a): return False
    def find(self, *a): return -1
    def split(self, *a): return [self]
    def __format__(self, spec): return "<abs>"
    def __str__(self): return "<abs>"
    __repr__ = __str__


class NLStr:
    """Text observable only through its length and the positions of its newlines."""

    def __init__(self, n, newline_positions, other_linebreak_positions=()):
        self.n = n
        self.ps = list(newline_positions)
        # positions of characters that str.splitlines() also treats as line boundaries but that are NOT "\n"
        # (form feed, vertical tab, \x1c-\x1e, \x85, U+2028/9): invisible to find("\n")
        self.qs = list(other_linebreak_positions)

    def symlen(self):
        return SymInt(self.n) if not isinstance(self.n, SymInt) else self.n

    def find(self, sub, start=0, end=None):
        if sub != "\n" or end is not None:
            raise EngineUnsupported("NLStr.find only models find('\\n', start)")
        r = z3.IntVal(-1)
        for p in reversed(self.ps):
            r = z3.If(lift(p) >= lift(start), lift(p), r)
        return SymInt(r)

    def __bool__(self):
        return bool(self.symlen() > 0)

    def __len__(self):
        return int(self.symlen())

    def endswith(self, suffix):
        if suffix != "\n":
            raise EngineUnsupported("NLStr.endswith only models endswith('\\n')")
        if not self.ps:
            return False
        return SymBool(lift(self.ps[-1]) == lift(self.n) - 1)

    def startswith(self, prefix):
        raise EngineUnsupported("NLStr.startswith is not modelled")

    def splitlines(self, keepends=False):
        """Python semantics: boundaries at every "\n" AND at every other line-break character."""
        breaks = sorted([SymInt(lift(p)) for p in self.ps] + [SymInt(lift(q)) for q in self.qs])  # forks on the order
        out, prev = [], z3.IntVal(-1)
        for b in breaks:
            out.append(AbsStr(SymInt(lift(b) - prev - (0 if keepends else 1))))
            prev = lift(b)
        tail = SymInt(lift(self.n) - prev - 1)
        if bool(tail > 0):
            out.append(AbsStr(tail))
        return out

    def split(self, sep=None, maxsplit=-1):
        """Exactly len(ps) newlines: K+1 opaque pieces whose lengths follow from the newline positions."""
        if sep != "\n" or maxsplit != -1:
            raise EngineUnsupported("NLStr.split only models split('\\n')")
        out, prev = [], z3.IntVal(-1)
        for p in self.ps:
            out.append(AbsStr(SymInt(lift(p) - prev - 1)))
            prev = lift(p)
        out.append(AbsStr(SymInt(lift(self.n) - prev - 1)))
        return out


# ---- builtins replacements to bind into module namespaces

def sym_len(x):
    if hasattr(x, "symlen"):
        return x.symlen()
    return len(x)


def sym_int(x, *a):
    if isinstance(x, SymInt):
        return x
    return int(x, *a)


def sym_isinstance(obj, cls):
    if isinstance(obj, (SymStr, AbsStr, NLStr)) and (cls is str or (isinstance(cls, tuple) and str in cls)):
        return True
    if isinstance(obj, SymInt) and (cls is int or (isinstance(cls, tuple) and int in cls)):
        return True
    if isinstance(obj, SymBool) and (cls is bool or (isinstance(cls, tuple) and bool in cls)):
        return True
    return isinstance(obj, cls)


def _fold(args, better):
    r = args[0]
    for x in args[1:]:
        lx, lr = lift(x), lift(r)
        r = SymInt(z3.If(better(lx, lr), lx, lr))
    return r


def sym_max(*a, **k):
    if len(a) == 1:
        a = tuple(a[0])
    if any(isinstance(x, SymInt) for x in a):
        return _fold(a, lambda x, r: x > r)
    return max(*a, **k)


def sym_min(*a, **k):
    if len(a) == 1:
        a = tuple(a[0])
    if any(isinstance(x, SymInt) for x in a):
        return _fold(a, lambda x, r: x < r)
    return min(*a, **k)


class SymSet:
    """Linear-scan set with symbolic equality (forks on membership)."""

    def __init__(self, it=()):
        self.items = []
        for x in it:
            self.add(x)

    def __contains__(self, x):
        for y in self.items:
            if _eq(x, y):
                return True
        return False

    def add(self, x):
        if x not in self:
            self.items.append(x)

    def update(self, it):
        for x in it:
            self.add(x)

    def __iter__(self):
        return iter(self.items)

    def __len__(self):
        return len(self.items)

    def __bool__(self):
        return bool(self.items)

    def __eq__(self, o):
        if not isinstance(o, (SymSet, set, frozenset)):
            return NotImplemented
        other = list(o)
        return all(any(_eq(x, y) for y in other) for x in self.items) and \
            all(any(_eq(y, x) for x in self.items) for y in other)

    def __ne__(self, o):
        r = self.__eq__(o)
        return r if r is NotImplemented else not r

    __hash__ = None


def _eq(a, b):
    if isinstance(a, tuple) and isinstance(b, tuple):
        if len(a) != len(b):
            return False
        return all(_eq(x, y) for x, y in zip(a, b))
    r = a == b
    return bool(r)


class SymDict:
    """Linear-scan dict with symbolic key equality."""

    def __init__(self, *a, **k):
        self.keys_, self.vals_ = [], []
        for kk, vv in dict(*a, **k).items():
            self[kk] = vv

    def _find(self, key):
        for i, k in enumerate(self.keys_):
            if _eq(key, k):
                return i
        return -1

    def __getitem__(self, key):
        i = self._find(key)
        if i < 0:
            if hasattr(self, "default_factory") and self.default_factory is not None:
                v = self.default_factory()
                self.keys_.append(key)
                self.vals_.append(v)
                return v
            raise KeyError(key)
        return self.vals_[i]

    def __setitem__(self, key, val):
        i = self._find(key)
        if i < 0:
            self.keys_.append(key)
            self.vals_.append(val)
        else:
            self.vals_[i] = val

    def __contains__(self, key):
        return self._find(key) >= 0

    def get(self, key, default=None):
        i = self._find(key)
        return default if i < 0 else self.vals_[i]

    def keys(self): return list(self.keys_)
    def values(self): return list(self.vals_)
    def items(self): return list(zip(self.keys_, self.vals_))
    def __iter__(self): return iter(list(self.keys_))
    def __len__(self): return len(self.keys_)


def sym_defaultdict(factory=None):
    d = SymDict()
    d.default_factory = factory
    return d


def sorted_keys_symbolic(keys):
    """sorted() over symbolic ints works natively via __lt__ (forks)."""
    return sorted(keys)


# ---- harness helpers

class CInt(int):
    """A plain int (C code sees a real int; arithmetic yields plain ints) that also answers `.e` for oracle formulas."""

    @property
    def e(self):
        return z3.IntVal(int(self))


def fresh_int(ctx: Ctx, name: str, lo=None, hi=None):
    if ctx.concrete is not None:
        # concrete replay mode: plain Python ints from the model, no proxies; bounds are checked like assumptions
        v = int(ctx.concrete.get(name, lo if isinstance(lo, int) else 0))
        for b, ok in ((lo, lambda b: v >= b), (hi, lambda b: v <= b)):
            if b is not None and not ok(b):
                from .core import Abort
                raise Abort()
        ctx.vars[name] = z3.IntVal(v)
        return CInt(v)
    t = ctx.declare(name, z3.Int(name))
    if lo is not None:
        ctx.assume(t >= lift(lo))
    if hi is not None:
        ctx.assume(t <= lift(hi))
    return SymInt(t)


def fresh_bool(ctx: Ctx, name: str):
    if ctx.concrete is not None:
        v = bool(ctx.concrete.get(name, False))
        ctx.vars[name] = z3.BoolVal(v)
        return v
    return SymBool(ctx.declare(name, z3.Bool(name)))


def fresh_str(ctx: Ctx, name: str, maxlen=None) -> SymStr:
    t = ctx.declare(name, z3.String(name))
    if maxlen is not None:
        ctx.assume(z3.Length(t) <= maxlen)
    return SymStr(t)


def choose(ctx: Ctx, name: str, options):
    """Pick one of a finite list of concrete options by a forked symbolic index."""
    i = fresh_int(ctx, name, 0, len(options) - 1)
    return options[int(i)]


class NullLogger:
    def __getattr__(self, n):
        return lambda *a, **k: None

    def isEnabledFor(self, *a):
        return False


# ---------------------------------------------------------------- RopeStr: text as rearrangement of opaque base texts

_COINCIDENCE = [0]


def _clamp(x, lo, hi):
    return z3.If(x < lo, lo, z3.If(x > hi, hi, x))


class RopeStr:
    """A string denoted as a sequence of pieces (base, lo, hi): base[lo:hi].

    Bases are opaque texts of symbolic length ("src", "name0", ...) or concrete literals ("lit", text).
    All operations stay in linear integer arithmetic; slicing never forks.
    `same_as` is the strict oracle comparison (equal for ALL contents of the bases);
    `==` used by the code under test is a sound over-approximation (free Boolean when not structurally equal).
    """

    __slots__ = ("pieces",)

    def __init__(self, pieces):
        self.pieces = list(pieces)

    @classmethod
    def base(cls, ctx, name):
        n = ctx.declare(f"len_{name}", z3.Int(f"len_{name}"))
        ctx.assume(n >= 0)
        return cls([(name, z3.IntVal(0), n)])

    @classmethod
    def lit(cls, text):
        return cls([(("lit", text), z3.IntVal(0), z3.IntVal(len(text)))]) if text else cls([])

    @staticmethod
    def coerce(o):
        if isinstance(o, RopeStr):
            return o
        if isinstance(o, str):
            return RopeStr.lit(o)
        return NotImplemented

    def symlen(self):
        return SymInt(z3.Sum([hi - lo for _, lo, hi in self.pieces]) if self.pieces else z3.IntVal(0))

    def __len__(self):
        return int(self.symlen())

    def __bool__(self):
        return bool(self.symlen() > 0)

    def __add__(self, o):
        o = RopeStr.coerce(o)
        return NotImplemented if o is NotImplemented else RopeStr(self.pieces + o.pieces)

    def __radd__(self, o):
        o = RopeStr.coerce(o)
        return NotImplemented if o is NotImplemented else RopeStr(o.pieces + self.pieces)

    def __getitem__(self, k):
        if not isinstance(k, slice) or k.step is not None:
            raise EngineUnsupported("RopeStr supports plain slices only")
        n = self.symlen().e
        a = z3.IntVal(0) if k.start is None else lift(k.start)
        b = n if k.stop is None else lift(k.stop)
        a = z3.If(a < 0, z3.If(a + n < 0, 0, a + n), z3.If(a > n, n, a))
        b = z3.If(b < 0, z3.If(b + n < 0, 0, b + n), z3.If(b > n, n, b))
        b = z3.If(b < a, a, b)
        out = []
        off = z3.IntVal(0)
        for base, lo, hi in self.pieces:
            ln = hi - lo
            out.append((base, lo + _clamp(a - off, 0, ln), lo + _clamp(b - off, 0, ln)))
            off = off + ln
        return RopeStr(out)

    def normalised(self):
        """Drop empty pieces and merge contiguous neighbours (forks on emptiness / adjacency)."""
        out = []
        for base, lo, hi in self.pieces:
            if not bool(SymBool(hi > lo)):
                continue
            if out and out[-1][0] == base and bool(SymBool(out[-1][2] == lo)):
                out[-1] = (base, out[-1][1], hi)
            else:
                out.append((base, lo, hi))
        return out

    def tiles(self, base, a, b):
        """Fork-free z3 formula: the non-empty pieces, in order, are consecutive ranges of `base` covering [a, b)."""
        pos = lift(a)
        ok = z3.BoolVal(True)
        for bs, lo, hi in self.pieces:
            if bs != base:
                return z3.BoolVal(False)
            ok = z3.And(ok, lo <= hi, z3.Or(lo == hi, lo == pos))
            pos = z3.If(lo < hi, hi, pos)
        return z3.And(ok, pos == lift(b))

    def same_as(self, o) -> "SymBool":
        """Strict: equal for every content of the base texts."""
        o = RopeStr.coerce(o)
        a, b = self.normalised(), o.normalised()
        if len(a) != len(b) or any(x[0] != y[0] for x, y in zip(a, b)):
            return SymBool(z3.BoolVal(False))
        return SymBool(z3.And(*[z3.And(x[1] == y[1], x[2] == y[2]) for x, y in zip(a, b)]) if a else z3.BoolVal(True))

    def __eq__(self, o):
        o2 = RopeStr.coerce(o)
        if o2 is NotImplemented:
            return False
        s = self.same_as(o2)
        if z3.is_false(z3.simplify(s.e)):
            # contents might still coincide: one *consistent* free Boolean per (unordered) pair of ropes
            import hashlib
            ka, kb = sorted([self._key(), o2._key()])
            name = "coincide_" + hashlib.md5((ka + "|" + kb).encode()).hexdigest()[:12]
            return SymBool(z3.Bool(name))
        return s

    def _key(self) -> str:
        return ";".join(f"{b}:{z3.simplify(lo).sexpr()}:{z3.simplify(hi).sexpr()}" for b, lo, hi in self.pieces)

    def _unused(self):
        return None

    def __ne__(self, o):
        r = self.__eq__(o)
        return True if r is False else ~r

    def __hash__(self):
        return _hash(self)

    def concretise(self, contents: dict, model) -> str:
        out = ""
        for base, lo, hi in self.pieces:
            l = model.eval(lo, model_completion=True).as_long(); h = model.eval(hi, model_completion=True).as_long()
            text = base[1] if isinstance(base, tuple) else contents[base]
            out += text[l:h]
        return out

    def __format__(self, spec): return "<rope>"
    def __str__(self): return "<rope>"
    __repr__ = __str__
